"""C10 — atoms are deposited on the grid at the right voxel and no mass is lost.

Leg B: the real `Structure.to_volume` / `Structure._coordinate_to_position` / `Density.from_structure`
of the repository vs the Lean model (Model/C10.lean, exact rationals), plus the clauses of the property
evaluated on the *real* outputs (Lean spec function `idxOf`/`specVoxel`/`specTotal`/`specOutside` fed with
the origin / sampling rate / shape the real code returned)."""
import glob
import json
import os
import zlib
from fractions import Fraction

import numpy as np

ID = "C10"
RULE = ("random structures (dyadic-grid, half-grid, PDB-like 3-decimals in float64 and float32, integer (int64/int32), free float, "
        "near-cubic, far-from-the-origin fine-dyadic near ties, scaled by 2^-10 / 2^8 and constructed near-.5 coordinates; arrays "
        "handed over C / Fortran ordered, strided, reversed, offset views, read-only; symbol and chain columns in their natural "
        "(narrowest) string dtype or <U4 / <U8; known / rare / unknown element symbols; 1-4 chains; 3-D and a few 2-D) "
        "x configurations (sampling rate none/scalar/per-axis as float, int, numpy float32 / 0-d / integer arrays, origin "
        "given (incl. exactly 0, integer and float32 arrays)/derived, shape given/derived incl. truncating, chain subsets incl. "
        "near-miss names (longer, other case), atomic_weight/atomic_number/left out, keyword or positional call, "
        "Structure.to_volume or Density.from_structure), several configurations run on the same Structure object in sequence, "
        "interleaved with edits of the object (coordinates moved in place / reassigned, elements and chains changed), with "
        "calls on another structure of the same size, with the very same request again, every returned array overwritten by the "
        "caller, and a follow-up conversion after which an earlier Density must still report its own count; planar / linear / "
        "single-point arrangements; atoms placed on the faces of the box (index -1, 0, n-1, n, exact ties); "
        "one structure with more than 10 000 atoms; the weight of every table symbol and of near-miss symbols; element filter "
        "(with chain restriction) through PDB and mmCIF files, also at a path that held another structure before; bundled entries. "
        "KERNEL streams (own random stream): small boxes with atoms at quarter / eighth / half voxel offsets, overlapping atoms, "
        "common / rare / unknown symbols, dyadic and non-dyadic rates (scalar, per-axis, left out), origin and shape given / derived "
        "(truncating boxes, so spheres and supports are clipped by the faces), chain subsets, to_volume or Density.from_structure, for "
        "weight_type van_der_waals_radius (2-D and 3-D), scattering_factors / lowpass_scattering_factors (spline replaced by the "
        "constant 1, and the real spline) and gaussian (Gaussian filter replaced by the identity, and the real filter); the "
        "footprint array of the code for random radii 0..13 per axis; unknown weight-type strings; "
        "Density.from_structure(path, filter_by_elements, filter_by_residues, chain, weight_type) on PDB / mmCIF files with ATOM and "
        "HETATM records, element / residue sets incl. EMPTY sets and near-miss names. "
        "distinct = distinct (coordinates-hash, configuration) pairs; cases with < 2 atoms in the subset, or all atoms in "
        "one voxel with none outside, are trivial and not counted")
ASSUMPTIONS = [
    "the weight of an element symbol in the spec is what the repository's Elements()[symbol] returns (reflection); the model's "
    "constant table is tied to Elements._elements by an obligation on every run",
    "every float32/float64 coordinate, origin and rate is passed to the model as its exact rational value; the real code "
    "rounds (c - o) / r in floating point, so atoms whose exact quotient is within ~1e-9 (float64) / ~1e-5 (float32) of a "
    "half-integer without the computation being provably exact are compared modulo the two neighbouring voxels",
    "the grid is float32: voxel values are compared with |err| <= 1e-3 + 1e-4*value, totals with 1e-4 relative; a voxel that "
    "receives K atoms is accumulated by K sequential float32 additions, off by at most (K+2)*2^-24 relative, so voxels with more "
    "than ~1600 atoms are compared with that bound instead of 1e-4, and the difference clauses (grid(all) - grid(kept) == "
    "grid(removed)) add (K+2)*2^-24*(|all|+|kept|+|removed|) per voxel for the rounding of the three accumulations",
    "the weight an atom must deposit is the entry of the Lean table for exactly its symbol (clause weight-of-symbol); the other "
    "clauses take the weight from the repository's accessor, which that clause and the table obligation tie to the Lean table",
    "the caller's argument arrays / lists and the structure's coordinate, element and chain columns must be bit-identical after a "
    "conversion (otherwise 'the origin given' and 'the structure' of the property are no longer what the caller holds)",
    "atoms whose quotient is exactly a half-integer on dyadic inputs are compared strictly (half-to-even)",
    "kernels: the code evaluates vdwr / (rate * 100) in float64, the model exactly; a case where ceil / floor of the quantities the "
    "code derives from it (sphere radius; support bounds ceil(p - R), floor(p + R)) differ between the two evaluations is counted "
    "and not compared (non-dyadic rates such as 1.7 for carbon); spheres of more than 13 voxels radius are not compared (the "
    "float norm <= 1 of the footprint was compared with the integer predicate exhaustively up to 13 only)",
    "kernels: the VALUES of the scattering spline and of the Gaussian filter are floats and are not modelled: the spline is replaced "
    "by the constant 1 (the grid is then the number of supports covering a voxel) and the filter by the identity (the grid is then "
    "the deposit handed to the filter); with the real spline only 'exactly zero outside the modelled support' and the outcome "
    "(returned / IndexError) are checked, for symbols the scattering table knows; with the real filter the preserved total mass is "
    "only counted; the padding of the Gaussian deposit is recomputed in float64 the way the code does and handed to the model",
]
TRUSTED = ["C10: numpy rint / add.at / float32 accumulation are exercised, not modelled beyond exact rationals",
           "C10 kernels: numpy slicing / meshgrid / broadcasting semantics as mirrored by Model/C10K.lean; monkeypatching "
           "tme.structure.atom_profile / tme.structure.Preprocessor inside the harness process"]

KEY_TIE = "to_volume:derived-origin:exact-tie-odd-shift"

COMMON = ["C", "N", "O", "H", "S", "P"]
UNKNOWN = ["X", "He", "c", "Zz", "D", "", "Xx"]
RATES = [0.5, 1.0, 2.0, 0.25, 1.5, 3.0, 2.2, 1.35, 0.75, 4.0, 1.0, 1.0, 0.1, 10.0, 7.3, 1.0]
LAYOUTS = ["C", "F", "strided", "reversed", "offset", "readonly", "revcols"]
MAX_VOXELS = 4e6     # the generators plan boxes of at most ~3e5 voxels (derived) / 64 per axis (given)
DTYPES = {"float64": np.float64, "float32": np.float32, "int64": np.int64, "int32": np.int32}


# ----------------------------------------------------------------------------------------------------------------
# helpers
# ----------------------------------------------------------------------------------------------------------------
def _ratio(x):
    n, d = Fraction(float(x)).as_integer_ratio()
    return [n, d]


def _coords_array(mol):
    dt = DTYPES[mol["dtype"]]
    return np.array(mol["coords"], dtype=np.float64).astype(dt).reshape(len(mol["coords"]), -1)


def _layout(a, how):
    """the same values in another memory layout (the API must not care)"""
    a = np.ascontiguousarray(a)
    if how in (None, "C") or a.shape[0] == 0:
        return a
    if how == "readonly":
        a = a.copy()
        a.setflags(write=False)
        return a
    if how == "reversed":
        return np.ascontiguousarray(a[::-1])[::-1]
    if a.ndim == 1:
        if how == "strided":
            return np.repeat(a, 2)[::2]
        if how == "offset":
            return np.concatenate([a[:1], a, a[:1]])[1:-1]
        return a
    if how == "F":
        return np.asfortranarray(a)
    if how == "strided":
        big = np.zeros((a.shape[0], 2 * a.shape[1]), dtype=a.dtype)
        big[:, ::2] = a
        return big[:, ::2]
    if how == "offset":
        big = np.full((a.shape[0] + 3, a.shape[1] + 2), 7, dtype=a.dtype)
        big[2:-1, 1:-1] = a
        return big[2:-1, 1:-1]
    if how == "revcols":
        return np.ascontiguousarray(a[:, ::-1])[:, ::-1]
    return a


def _sym_array(vals, mode):
    """string column: '<U4' (default), the narrowest dtype numpy picks for these strings ('natural'), or '<U8'"""
    vals = [str(v) for v in vals]
    if mode == "natural":
        return np.array(vals) if vals else np.array(vals, dtype="<U1")
    return np.array(vals, dtype="<U8" if mode == "U8" else "<U4")


def make_structure(mol):
    from tme import Structure
    n = len(mol["coords"])
    s = Structure(
        record_type=["ATOM"] * n, atom_serial_number=list(range(1, n + 1)),
        atom_name=[(e if e else "X")[:4] for e in mol["elems"]],
        atom_coordinate=[[0.0] * len(mol["coords"][0])] * n, alternate_location_indicator=["."] * n,
        residue_name=["GLY"] * n, chain_identifier=list(mol["chains"]), residue_sequence_number=list(range(1, n + 1)),
        code_for_residue_insertion=["?"] * n, occupancy=[1.0] * n, temperature_factor=[0.0] * n,
        segment_identifier=["1"] * n, element_symbol=list(mol["elems"]), charge=["?"] * n, metadata={})
    lay = mol.get("layout")
    s.atom_coordinate = _layout(_coords_array(mol), lay)
    s.element_symbol = _layout(_sym_array(mol["elems"], mol.get("sym")), lay)
    s.chain_identifier = _layout(_sym_array(mol["chains"], mol.get("sym")), lay)
    return s


def mol_of(st, mol):
    """the description of the structure object as it is now (after edits)"""
    return dict(mol, coords=np.asarray(st.atom_coordinate).astype(np.float64).tolist(),
                elems=[str(x) for x in st.element_symbol], chains=[str(x) for x in st.chain_identifier])


def apply_edit(st, mol, ed):
    """an edit a user makes on a Structure between two conversions; returns the new description"""
    kind = ed["edit"]
    if kind == "translate":
        t = np.array(ed["by"], dtype=np.float64).astype(st.atom_coordinate.dtype)
        if ed.get("inplace") and st.atom_coordinate.flags.writeable:
            st.atom_coordinate += t
        else:
            st.atom_coordinate = st.atom_coordinate + t
    elif kind == "coords":
        st.atom_coordinate = np.array(ed["coords"], dtype=np.float64).astype(st.atom_coordinate.dtype)
    elif kind == "elements":
        st.element_symbol = _sym_array(ed["elems"], mol.get("sym"))
    elif kind == "elements-inplace":
        # single entries overwritten in the existing column (one-letter symbols fit every string dtype)
        if st.element_symbol.flags.writeable:
            for i, e in ed["set"]:
                st.element_symbol[i] = e
        else:
            col = np.array(st.element_symbol)
            for i, e in ed["set"]:
                col[i] = e
            st.element_symbol = col
    elif kind == "chains":
        st.chain_identifier = _sym_array(ed["chains"], mol.get("sym"))
    return mol_of(st, mol)


def apply_history(st, mol0, history):
    """replays calls / edits / calls on other structures; returns the description of `st` afterwards"""
    cur = mol0
    for h in history or []:
        if "edit" in h:
            cur = apply_edit(st, cur, h)
        elif "other" in h:
            call_real(make_structure(h["other"]["mol"]), h["other"]["cfg"])
        else:
            call_real(st, h)
    return cur


def _as_param(v, kind):
    if v is None:
        return None
    if kind == "scalar":
        return v
    if kind == "int":
        return int(v)
    if kind == "tuple":
        return tuple(v)
    if kind == "list":
        return list(v)
    if kind == "int-tuple":
        return tuple(int(x) for x in v)
    if kind == "npint-tuple":
        return tuple(np.int32(x) for x in v)
    if kind == "int-array":
        return np.array([int(x) for x in v], dtype=np.int64)
    if kind == "i32-array":
        return np.array([int(x) for x in v], dtype=np.int32)
    if kind == "f32-array":
        return np.array(v, dtype=np.float32)
    if kind == "f32-scalar":
        return np.float32(v)
    if kind == "0d-array":
        return np.array(float(v))
    return np.array(v)


def _wt(cfg):
    """weight type in force: the signature's default when left out"""
    return cfg["wt"] or "atomic_weight"


def _same(a, b):
    if isinstance(a, np.ndarray):
        return isinstance(b, np.ndarray) and a.dtype == b.dtype and a.shape == b.shape and bool(np.all(a == b))
    return type(a) is type(b) and a == b


def call_real(st, cfg):
    """Run the real code.  Returns dict(grid, origin, rate, outside, mutated) or dict(raised=...)."""
    from tme import Density
    p = {"shape": None if cfg["shape"] is None else _as_param(cfg["shape"], cfg.get("shape_kind", "tuple")),
         "sampling_rate": None if cfg["rate"] is None else _as_param(cfg["rate"], cfg.get("rate_kind", "tuple")),
         "origin": None if cfg["origin"] is None else _as_param(cfg["origin"], cfg.get("origin_kind", "tuple")),
         "chain": cfg["chain"], "weight_type": cfg["wt"]}
    snap = {k: (v.copy() if isinstance(v, np.ndarray) else list(v)) for k, v in p.items() if isinstance(v, (np.ndarray, list))}
    before = [np.array(st.atom_coordinate), np.array(st.element_symbol), np.array(st.chain_identifier)]
    try:
        if cfg.get("call") == "pos":
            # positional, in the order of the signatures
            if cfg["api"] == "from_structure":
                args = [st, p["shape"], np.ones(1) if p["sampling_rate"] is None else p["sampling_rate"], p["origin"]]
                kw = {}
                if p["weight_type"] is not None:
                    args.append(p["weight_type"])
                    if p["chain"] is not None:
                        args += [{}, p["chain"]]
                elif p["chain"] is not None:
                    kw["chain"] = p["chain"]
                d = Density.from_structure(*args, **kw)
            else:
                args = [p["shape"], p["sampling_rate"], p["origin"], p["chain"], p["weight_type"]]
                while args and args[-1] is None:
                    args.pop()
                out = st.to_volume(*args)
        else:
            kw = {k: v for k, v in p.items() if v is not None}
            if cfg["api"] == "from_structure":
                d = Density.from_structure(st, **kw)
            else:
                out = st.to_volume(**kw)
        if cfg["api"] == "from_structure":
            grid, origin, rate, meta = d.data, d.origin, d.sampling_rate, d.metadata
        else:
            (grid, origin, rate), meta = out, st.metadata
        if int(np.prod(np.shape(grid), dtype=np.float64)) > MAX_VOXELS:
            # every planned box has at most ~3e5 voxels; a grid this large is not evaluated (memory), it is reported
            return {"raised": "oversized-grid", "msg": "grid of shape %s" % (tuple(np.shape(grid)),)}
        mutated = [k for k, v in snap.items() if not _same(v, p[k])]
        for name, b, a in zip(("atom_coordinate", "element_symbol", "chain_identifier"), before,
                              (st.atom_coordinate, st.element_symbol, st.chain_identifier)):
            if not _same(b, np.array(a)):
                mutated.append(name)
        real = {"grid": np.array(grid), "origin": np.array(origin, dtype=np.float64).reshape(-1),
                "rate": np.array(rate, dtype=np.float64).reshape(-1), "outside": int(meta.get("nAtoms_outOfBound", -1)),
                "mutated": mutated}
        # what came back belongs to the caller: overwrite it, a later conversion must not hand the same memory out again
        for arr in (grid, rate) + (() if origin is p["origin"] else (origin,)):
            if isinstance(arr, np.ndarray) and arr.flags.writeable and arr.size:
                arr[...] = -7
        if cfg.get("followup") and cfg["api"] == "from_structure":
            # a later conversion of the same structure with another number of atoms outside must not change what this
            # Density reports
            nd = real["origin"].size
            f = {"shape": [1] * nd, "rate": None, "origin": [1.0e7] * nd} if real["outside"] == 0 else {"shape": None, "rate": 8.0, "origin": None}
            f.update(chain=None, wt="atomic_number", api="to_volume", rate_kind="scalar", origin_kind="tuple", shape_kind="tuple")
            call_real(st, f)
            real["outside_after_followup"] = int(meta.get("nAtoms_outOfBound", -1))
        return real
    except Exception as e:  # noqa
        return {"raised": type(e).__name__, "msg": str(e)[:200]}


def resolved_rate(cfg, nd):
    r = cfg["rate"]
    if r is None:
        return [1.0] * nd
    if np.ndim(r) == 0:
        return [float(r)] * nd
    r = [float(x) for x in r]
    if len(r) == 1:
        return r * nd
    return r if len(r) == nd else None


def subset_indices(mol, chain):
    if chain is None:
        return list(range(len(mol["chains"])))
    want = chain.split(",")
    return [i for i, c in enumerate(mol["chains"]) if c in want]


def table_from_repo():
    from tme.structure import Elements
    e = Elements()
    return {k: (int(v.atomic_number), float(v.atomic_weight)) for k, v in e._elements.items()}, e


_TABLE = {}


def weights_for(elems, wt):
    """independent of the model: the weight of a symbol is whatever the repository's `Elements()[symbol]` says
    (reflection through the real accessor); integers in units of 1e-9 (atomic_weight) or 1 (atomic_number)"""
    if "e" not in _TABLE:
        _TABLE["t"], _TABLE["e"] = table_from_repo()
    e = _TABLE["e"]
    if wt == "atomic_number":
        return [int(e[str(x)].atomic_number) for x in elems], 1.0
    return [int(round(float(e[str(x)].atomic_weight) * 1e9)) for x in elems], 1e-9


def _is_dyadic(a):
    a = np.asarray(a, dtype=np.float64)
    return bool(np.all(np.abs(a) < 2.0 ** 30) and np.all(a * 65536.0 == np.round(a * 65536.0)))


def near_half(coords_zyx, origin, rate, dtype):
    """boolean (n, nd): float evaluation of (c - o)/r is close to a half-integer (candidate for ambiguity)."""
    c = np.asarray(coords_zyx, dtype=np.float64)
    o = np.asarray(origin, dtype=np.float64)
    r = np.asarray(rate, dtype=np.float64)
    q = (c - o) / r
    eps = 1.2e-7 if dtype == "float32" else 2.3e-16
    tol = 8 * eps * (np.abs(c) + np.abs(o)) / r + 1e-9 * np.maximum(1.0, np.abs(q))
    d = np.abs(q - np.floor(q) - 0.5)
    return d <= tol, q


def dense_from_sparse(sparse, shape, unit):
    g = np.zeros(int(np.prod(shape)) if len(shape) else 1, dtype=np.float64)
    for k, v in sparse:
        g[k] = v * unit
    return g.reshape(shape)


U32 = 2.0 ** -24      # unit roundoff of the float32 grid


def grids_close(a, b, rel=1e-4):
    return a.shape == b.shape and bool(np.all(np.abs(a - b) <= 1e-3 + rel * np.maximum(np.abs(a), np.abs(b))))


def occupancy_bound(czyx, origin, rate, shape):
    """upper bound on the number of atoms deposited into each voxel of a grid with this frame (atoms beside a tie are
    counted in every voxel)"""
    K = np.zeros(shape, dtype=np.float64)
    czyx = np.asarray(czyx, dtype=np.float64)
    if czyx.size == 0 or K.size == 0:
        return K
    q = (czyx - np.asarray(origin, dtype=np.float64)) / np.asarray(rate, dtype=np.float64)
    near = (np.abs(q - np.floor(q) - 0.5) < 1e-6).any(axis=1)
    idx = np.rint(q).astype(np.int64)
    ok = np.all((idx >= 0) & (idx < np.array(shape)), axis=1) & ~near
    if ok.any():
        np.add.at(K, tuple(idx[ok].T), 1.0)
    return K + float(near.sum())


def diff_close(F, A, B, K):
    """F - A == B for float32 grids accumulated atom by atom: 1e-3 + 1e-4 relative as everywhere, plus the rounding of up to
    K sequential float32 additions per voxel in each of the three grids, (K+2) u (|F|+|A|+|B|) with u = 2^-24"""
    if not (F.shape == A.shape == B.shape == K.shape):
        return False
    tol = 1e-3 + 1e-4 * np.maximum(np.abs(F - A), np.abs(B)) + (K + 2.0) * U32 * (np.abs(F) + np.abs(A) + np.abs(B))
    return bool(np.all(np.abs(F - A - B) <= tol))


# ----------------------------------------------------------------------------------------------------------------
# the property's clauses on the real outputs
# ----------------------------------------------------------------------------------------------------------------
def spec_eval(ctx, mol, cfg, real, relaxed_ties):
    """Evaluate voxel / total / outside-count w.r.t. the RETURNED origin, rate and grid shape.
    Returns list of (clause, ok, detail).  `relaxed_ties`: exact half-integer quotients accept both neighbours."""
    nd = len(mol["coords"][0])
    sub = subset_indices(mol, cfg["chain"])
    G = real["grid"].astype(np.float64)
    shape = list(G.shape)
    o_ret, r_ret = real["origin"], real["rate"]
    if len(shape) != nd or o_ret.size != nd or r_ret.size != nd or not np.all(np.isfinite(r_ret)) or np.any(r_ret <= 0) \
            or not np.all(np.isfinite(o_ret)):
        return [("voxel", False, {"why": "returned origin/rate/shape malformed", "shape": shape,
                                  "origin": o_ret.tolist(), "rate": r_ret.tolist()})], \
               {"ambiguous": 0, "ties": 0, "inside": 0, "distinct_voxels": 0, "n": len(sub), "kmax": 0.0}
    coords = _coords_array(mol)[sub]
    elems = [mol["elems"][i] for i in sub]
    w_int, unit = weights_for(elems, _wt(cfg))
    atoms = [{"xyz": [_ratio(x) for x in coords[i]], "w": int(w_int[i])} for i in range(len(sub))]
    sp = ctx.driver.call("c10.spec", nd=nd, atoms=atoms, origin=[_ratio(x) for x in o_ret],
                         rate=[_ratio(x) for x in r_ret], shape=shape)
    idx = np.array(sp["idx"], dtype=np.int64).reshape(len(sub), nd)
    ties = np.array(sp["ties"], dtype=bool).reshape(len(sub), nd)
    czyx = coords[:, ::-1].astype(np.float64)
    near, qf = near_half(czyx, o_ret, r_ret, mol["dtype"])
    # is the real computation provably exact at exact ties?
    o0 = np.asarray(cfg["origin"], dtype=np.float64) if cfg["origin"] is not None else o_ret
    strict_ok = mol["dtype"] != "float32" and _is_dyadic(czyx) and _is_dyadic(o0)
    if strict_ok:
        for k in range(nd):
            sh = (Fraction(float(o_ret[k])) - Fraction(float(o0[k]))) / Fraction(float(r_ret[k]))
            if sh.denominator != 1:
                strict_ok = False
    amb = near & ~(ties & strict_ok) if not relaxed_ties else (near | ties)
    amb_atom = amb.any(axis=1)
    w = np.array(w_int, dtype=np.float64) * unit
    shp = np.array(shape)
    inside = np.all((idx >= 0) & (idx < shp), axis=1)
    E = np.zeros(shape, dtype=np.float64)
    strict = ~amb_atom
    sel = strict & inside
    if sel.any():
        np.add.at(E, tuple(idx[sel].T), w[sel])
    # candidate voxels of ambiguous atoms
    S = np.zeros(shape, dtype=bool)
    amb_lo, amb_hi = 0.0, 0.0      # mass of ambiguous atoms that must / may be in the grid
    out_lo = int(np.sum(strict & ~inside))
    out_hi = out_lo
    for a in np.nonzero(amb_atom)[0]:
        cands = [[]]
        for k in range(nd):
            opts = [int(idx[a, k])]
            if amb[a, k]:
                f = int(np.floor(qf[a, k]))
                opts = sorted({f, f + 1, int(idx[a, k])})
            cands = [c + [o] for c in cands for o in opts]
        ins = [all(0 <= c[k] < shape[k] for k in range(nd)) for c in cands]
        for c, i_ in zip(cands, ins):
            if i_:
                S[tuple(c)] = True
        if all(ins):
            amb_lo += w[a]
        if any(ins):
            amb_hi += w[a]
        if not all(ins):
            out_hi += 1
        if not any(ins):
            out_lo += 1
    res = []
    # float32 accumulation, atom by atom: K additions into one voxel are off by at most (K+2) u (u = 2^-24) relative; the
    # 1e-4 of the assumptions covers up to ~1600 atoms per voxel, more crowded voxels get the bound of their occupancy
    K = np.zeros(shape, dtype=np.float64)
    if inside.any():
        np.add.at(K, tuple(idx[inside].T), 1.0)
    K += float(amb_atom.sum())
    kmax = float(K.max()) if K.size else 0.0
    rel_tot = max(1e-4, (kmax + 2.0) * U32)
    rel = np.maximum(1e-4, (K + 2.0) * U32)
    tol = lambda v: 1e-3 + rel_tot * abs(v)
    off = ~S
    bad = np.abs(G - E)[off] > (1e-3 + rel * np.maximum(np.abs(G), np.abs(E)))[off]
    ok_vox = not bool(bad.any())
    detail = None
    if not ok_vox:
        where = np.argwhere((np.abs(G - E) > (1e-3 + rel * np.maximum(np.abs(G), np.abs(E)))) & off)[:4]
        detail = {"returned_origin": o_ret.tolist(), "returned_rate": r_ret.tolist(), "grid_shape": shape,
                  "voxels": [{"voxel": v.tolist(), "grid": float(G[tuple(v)]), "expected": float(E[tuple(v)])} for v in where]}
    sS = float(G[S].sum()) if S.any() else 0.0
    eS = float(E[S].sum()) if S.any() else 0.0
    if ok_vox and not (eS + amb_lo - tol(eS + amb_lo) <= sS <= eS + amb_hi + tol(eS + amb_hi)):
        ok_vox = False
        detail = {"why": "mass on the candidate voxels of near-tie atoms", "got": sS, "lo": eS + amb_lo, "hi": eS + amb_hi}
    res.append(("voxel", ok_vox, detail))
    tot = float(G.sum())
    e_tot = float(E.sum())
    lo, hi = e_tot + amb_lo, e_tot + amb_hi
    res.append(("total", lo - tol(lo) <= tot <= hi + tol(hi), {"grid_total": tot, "inside_weight": [lo, hi]}))
    res.append(("outside-count", out_lo <= real["outside"] <= out_hi,
                {"reported": real["outside"], "expected": [out_lo, out_hi]}))
    # the Lean spec's own totals agree with the above when nothing is ambiguous (sanity of the harness arithmetic)
    if not amb_atom.any():
        if sp["outside"] != out_lo or abs(sp["total"] * unit - e_tot) > 1e-6 * max(1.0, abs(e_tot)):
            res.append(("harness-arithmetic", False, {"lean": [sp["outside"], sp["total"]], "py": [out_lo, e_tot]}))
        # literal per-voxel spec function on small cases
        if len(sub) <= 24:
            rng = np.random.default_rng(len(sub) * 7919 + int(abs(tot)) % 1000)
            vox = {tuple(v) for v in idx[inside].tolist()}
            for _ in range(6):
                vox.add(tuple(int(rng.integers(0, max(1, s))) for s in shape))
            vox = [list(v) for v in vox if all(0 <= v[k] < shape[k] for k in range(nd))]
            if vox:
                vals = ctx.driver.call("c10.specVoxels", nd=nd, atoms=atoms, origin=[_ratio(x) for x in o_ret],
                                       rate=[_ratio(x) for x in r_ret], voxels=vox)
                for v, val in zip(vox, vals):
                    g = float(G[tuple(v)])
                    if abs(g - val * unit) > tol(g):
                        res.append(("voxel", False, {"voxel": v, "grid": g, "specVoxel": val * unit,
                                                     "returned_origin": o_ret.tolist(), "returned_rate": r_ret.tolist()}))
                        break
    return res, {"ambiguous": int(amb_atom.sum()), "ties": int(ties.any(axis=1).sum()), "inside": int(inside.sum()),
                 "distinct_voxels": len({tuple(v) for v in idx[inside].tolist()}), "n": len(sub), "kmax": kmax}


def check_case(ctx, mol, cfg, st=None, history=None, record=True, mol0=None):
    """One (structure, configuration): correspondence with the model + clauses of the property on the real outputs.
    `mol` describes the structure object as it is when the configuration runs; `mol0` (when the history contains edits)
    is the description it was built from.  Returns True iff nothing failed."""
    d = ctx.driver
    nd = len(mol["coords"][0])
    inp = {"mol": mol, "cfg": cfg, "history": history or []}
    if mol0 is not None:
        inp["mol0"] = mol0
    if st is None:
        st = make_structure(mol0 or mol)
        cur = apply_history(st, mol0 or mol, history)
        if mol0 is not None and (cur["coords"], cur["elems"], cur["chains"]) != (mol["coords"], mol["elems"], mol["chains"]):
            ctx.note("replayed history does not reproduce the recorded structure")
            mol = cur
            inp["mol"] = cur
    n_before = len(ctx.spec_failures) + len(ctx.disagreements)
    sub = subset_indices(mol, cfg["chain"])
    rr = resolved_rate(cfg, nd)

    # ---- model
    atoms = [{"xyz": [_ratio(x) for x in row], "elem": e, "chain": c}
             for row, e, c in zip(_coords_array(mol), mol["elems"], mol["chains"])]
    margs = dict(nd=nd, atoms=atoms, shape=cfg["shape"],
                 rate=None if cfg["rate"] is None else [_ratio(x) for x in np.atleast_1d(cfg["rate"])],
                 origin=None if cfg["origin"] is None else [_ratio(x) for x in cfg["origin"]],
                 chain=cfg["chain"], wt=_wt(cfg))
    model = d.call("c10.toVolume", **margs)

    # ---- real
    real = call_real(st, cfg)
    if isinstance(model, str):
        ctx.agree("to_volume:outcome", inp, "raised" if "raised" in real else "returned", "raised")
        ctx.count("outcome:" + model)
        if "raised" not in real and sub and rr is not None:
            pass
        return len(ctx.spec_failures) + len(ctx.disagreements) == n_before
    if "raised" in real:
        ctx.agree("to_volume:outcome", inp, "raised:" + real["raised"], "returned")
        if real["raised"] == "oversized-grid":
            ctx.spec("the grid is the requested box, or the minimum box holding the atoms when the shape is derived", inp, False,
                     {"got": real["msg"], "model_shape": model["shape"]}, key="to_volume:shape")
        else:
            ctx.spec("to_volume returns for a non-empty subset and valid arguments", inp, False, real, key="to_volume:raised")
        return False

    G = real["grid"]
    # ---- requested parameters come back
    ok = True
    if real["origin"].size != nd or real["rate"].size != nd or not np.all(np.isfinite(real["origin"])) \
            or not np.all(np.isfinite(real["rate"])) or np.any(real["rate"] <= 0) or G.ndim != nd:
        ctx.spec("returned origin and sampling rate are finite, one per axis, the rate positive", inp, False,
                 {"origin": real["origin"].tolist(), "rate": real["rate"].tolist(), "grid_shape": list(G.shape)}, key="to_volume:origin")
        return False
    ok &= ctx.spec("the conversion leaves the caller's arguments and the structure's columns as they were", inp,
                   not real["mutated"], {"changed": real["mutated"]}, key="to_volume:arguments-mutated")
    if "outside_after_followup" in real:
        ok &= ctx.spec("the out-of-bounds count a Density reports is not changed by a later conversion of the same structure", inp,
                       real["outside_after_followup"] == real["outside"],
                       {"reported_first": real["outside"], "after_another_conversion": real["outside_after_followup"]},
                       key="from_structure:metadata-aliased")
        ctx.count("followup-conversion")
    if cfg["shape"] is not None:
        ok &= ctx.spec("grid has the requested shape", inp, list(G.shape) == list(cfg["shape"]),
                       {"got": list(G.shape)}, key="to_volume:shape")
    ok &= ctx.spec("returned sampling rate is the requested one (scalar repeated per axis)", inp,
                   real["rate"].tolist() == rr, {"got": real["rate"].tolist(), "want": rr}, key="to_volume:rate")
    if cfg["origin"] is not None:
        if cfg["shape"] is not None:
            good = real["origin"].tolist() == [float(x) for x in cfg["origin"]]
        else:
            k = (real["origin"] - np.asarray(cfg["origin"], dtype=np.float64)) / np.asarray(rr)
            good = bool(np.all(np.abs(k - np.round(k)) <= 1e-6 * np.maximum(1.0, np.abs(k))))
        ok &= ctx.spec("returned origin is the requested one (moved by whole voxels when the shape is derived)", inp,
                       good, {"got": real["origin"].tolist(), "want": cfg["origin"]}, key="to_volume:origin")
    if G.dtype != np.float32:
        ctx.note(f"grid dtype {G.dtype}")

    # ---- clauses w.r.t. the returned frame
    res, info = spec_eval(ctx, mol, cfg, real, relaxed_ties=False)
    failing = [r for r in res if not r[1]]
    key_override = None
    if failing and cfg["origin"] is not None and cfg["shape"] is None:
        res2, _ = spec_eval(ctx, mol, cfg, real, relaxed_ties=True)
        if all(r[1] for r in res2):
            key_override = KEY_TIE
    names = {"voxel": "each atom inside adds its weight at round((zyx - returned origin)/returned rate) and nowhere else",
             "total": "grid total = summed weight of the atoms inside",
             "outside-count": "reported number of atoms outside is exact",
             "harness-arithmetic": "harness arithmetic == Lean spec totals"}
    if key_override == KEY_TIE:
        _TABLE["tie_cases"] = _TABLE.get("tie_cases", 0) + 1
        ctx.count("known-tie-class-cases")
    for clause, good, detail in res:
        if key_override == KEY_TIE and not good and _TABLE["tie_cases"] > 12:
            ctx.evaluations += 1          # counted, not stored again (the list of failures is capped)
            continue
        ok &= ctx.spec(names[clause], inp, good, detail, key=key_override or ("to_volume:" + clause))
    if cfg["shape"] is None:
        w_int, unit = weights_for([mol["elems"][i] for i in sub], _wt(cfg))
        allw = float(sum(w_int)) * unit
        tot = float(G.astype(np.float64).sum())
        ok &= ctx.spec("derived shape holds every atom (none outside, no mass lost)", inp,
                       real["outside"] == 0 and abs(tot - allw) <= 1e-3 + max(1e-4, (info["kmax"] + 2.0) * U32) * abs(allw),
                       {"outside": real["outside"], "total": tot, "all": allw}, key="to_volume:derived-all-inside")

    # ---- correspondence with the model
    m_shape = model["shape"]
    m_origin = [n / dd for n, dd in model["origin"]]
    ctx.agree("to_volume:rate", inp, real["rate"].tolist(), [n / dd for n, dd in model["rate"]])
    # near-tie atoms w.r.t. the origin used inside rint
    czyx = _coords_array(mol)[sub][:, ::-1].astype(np.float64)
    o0 = np.asarray(cfg["origin"], dtype=np.float64) if cfg["origin"] is not None else czyx.min(axis=0)
    near0, _ = near_half(czyx, o0, np.asarray(rr), mol["dtype"])
    ties0 = np.array(model["ties"], dtype=bool).reshape(len(sub), nd)
    strict_ok = mol["dtype"] != "float32" and _is_dyadic(czyx) and _is_dyadic(o0)
    fuzzy = bool((near0 & ~(ties0 & strict_ok)).any())
    if fuzzy:
        ctx.count("agree-skipped:near-tie-inexact")
    else:
        ctx.agree("to_volume:shape", inp, list(G.shape), m_shape)
        ctx.agree("to_volume:origin", inp, real["origin"].tolist(), m_origin,
                  eq=lambda a, b: len(a) == len(b) and all(abs(x - y) <= 1e-9 * (1 + abs(x) + abs(y)) for x, y in zip(a, b)))
        ctx.agree("to_volume:outside", inp, real["outside"], model["outside"])
        unit = 1e-9 if _wt(cfg) == "atomic_weight" else 1.0
        if list(G.shape) == m_shape:
            Mg = dense_from_sparse(model["grid"], m_shape, unit)
            ctx.agree("to_volume:grid", inp, True, grids_close(G.astype(np.float64), Mg, max(1e-4, (info["kmax"] + 2.0) * U32)))
        # integer positions straight from _coordinate_to_position (fresh subset object, as to_volume does)
        try:
            tmp = st.subset_by_chain(chain=cfg["chain"])
            pos, atypes, shp, _, _ = tmp._coordinate_to_position(
                shape=None if cfg["shape"] is None else tuple(cfg["shape"]),
                sampling_rate=np.array(rr), origin=None if cfg["origin"] is None else tuple(cfg["origin"]))
            impl_pos = np.asarray(pos).astype(int).tolist()
            ctx.agree("_coordinate_to_position:positions", inp, impl_pos, model["positions"])
            ctx.agree("_coordinate_to_position:atoms", inp, [str(x) for x in atypes],
                      [mol["elems"][sub[i]] for i in _kept(model, len(sub))])
        except Exception as e:  # noqa
            ctx.agree("_coordinate_to_position:positions", inp, "raised:" + type(e).__name__, model["positions"])

    # ---- bookkeeping
    if record:
        ctx.count("nd=%d" % nd)
        ctx.count("kind:" + mol.get("kind", "?"))
        ctx.count("dtype:" + mol["dtype"])
        ctx.count("rate:" + ("none" if cfg["rate"] is None else "scalar" if np.ndim(cfg["rate"]) == 0 else "per-axis"))
        ctx.count("origin:" + ("given" if cfg["origin"] is not None else "derived"))
        ctx.count("shape:" + ("given" if cfg["shape"] is not None else "derived"))
        ctx.count("chain:" + ("all" if cfg["chain"] is None else "subset"))
        ctx.count("wt:" + (cfg["wt"] or "left-out"))
        ctx.count("api:" + cfg["api"] + ("(positional)" if cfg.get("call") == "pos" else ""))
        ctx.count("layout:" + (mol.get("layout") or "C"))
        ctx.count("string-columns:" + (mol.get("sym") or "U4"))
        ctx.count("kinds:rate=%s,origin=%s,shape=%s" % (cfg.get("rate_kind") if cfg["rate"] is not None else "-",
                                                       cfg.get("origin_kind") if cfg["origin"] is not None else "-",
                                                       cfg.get("shape_kind") if cfg["shape"] is not None else "-"))
        if cfg["origin"] is not None and not any(cfg["origin"]):
            ctx.count("origin:exactly-zero")
        if any("edit" in h for h in history or []):
            ctx.count("after-edit-of-the-object")
        if any("other" in h for h in history or []):
            ctx.count("after-call-on-another-structure")
        if len(sub) > 10000:
            ctx.count("atoms>10000")
        ctx.count("outside:" + (">0" if real["outside"] > 0 else "0"))
        ctx.count("exact-ties:" + (">0" if info["ties"] else "0"))
        ctx.count("near-tie-ambiguous:" + (">0" if info["ambiguous"] else "0"))
        ctx.count("collisions:" + ("yes" if info["distinct_voxels"] < info["inside"] else "no"))
        ctx.count("unknown-elements:" + ("yes" if any(mol["elems"][i] not in _TABLE["t"] for i in sub) else "no"))
        if any(s % 2 for s in model["shift"]):
            ctx.count("left-shift:odd")
        if info["n"] >= 2 and (info["distinct_voxels"] >= 2 or real["outside"] > 0):
            h = zlib.crc32(json.dumps([mol["coords"], mol["elems"], mol["chains"]]).encode())
            ctx.distinct((h, json.dumps(cfg, sort_keys=True)))
        else:
            ctx.count("trivial")
    return ok and len(ctx.spec_failures) + len(ctx.disagreements) == n_before


def _kept(model, n):
    """indices (within the subset) of the atoms the model kept: positions in `allpos` that are inside the shape"""
    shp = model["shape"]
    return [i for i, p in enumerate(model["allpos"]) if all(0 <= x < s for x, s in zip(p, shp))]


# ----------------------------------------------------------------------------------------------------------------
# generators
# ----------------------------------------------------------------------------------------------------------------
def _is_int(v):
    return all(float(x) == int(x) for x in np.atleast_1d(v))


def _is_f32(v):
    return all(float(np.float32(x)) == float(x) for x in np.atleast_1d(v))


KINDS = ["dyadic", "dense", "halfgrid", "pdb3", "f32", "int", "free", "nearcubic", "dyadic-wide", "far", "scaled", "int32", "flat"]


def gen_mol(rng, n, kind=None, nd=3, table_keys=None, plain=False):
    kind = kind or str(rng.choice(KINDS))
    dtype = "float64"
    hint = None
    if kind == "dyadic":
        R = int(rng.choice([8, 24, 60]))
        c = rng.integers(-R, R + 1, size=(n, nd)) / 8.0
    elif kind == "dense":      # many atoms per voxel: the deposit must accumulate
        c = rng.integers(-12, 13, size=(n, nd)) / 8.0 + rng.integers(-3, 4, size=nd)
    elif kind == "dyadic-wide":
        c = rng.integers(-400, 401, size=(n, nd)) / 8.0 + rng.integers(-50, 50, size=nd)
    elif kind == "halfgrid":
        c = rng.integers(-12, 13, size=(n, nd)) / 2.0
    elif kind == "pdb3":
        c = np.round(rng.uniform(-30, 30, size=(n, nd)) + rng.uniform(-100, 100, size=nd), 3)
    elif kind == "f32":
        c = np.round(rng.uniform(-20, 20, size=(n, nd)) + rng.uniform(-100, 100, size=nd), 3).astype(np.float32).astype(np.float64)
        dtype = "float32"
    elif kind == "int":
        c = rng.integers(-15, 16, size=(n, nd)).astype(np.float64)
        dtype = "int64"
    elif kind == "int32":
        c = rng.integers(-40, 41, size=(n, nd)).astype(np.float64)
        dtype = "int32"
    elif kind == "nearcubic":
        ext = 6.0 + rng.integers(0, 5, size=nd) / 4.0          # extents differ by fractions of a voxel
        c = np.round(rng.uniform(0, 1, size=(n, nd)) * ext * 8) / 8.0
        c[0] = 0
        if n > 1:
            c[1] = ext
    elif kind == "far":
        # thousands of voxels from zero, fractions of 2^-12 / 2^-10 of a voxel beside a tie: exact in float64, lost in float32
        hint = float(rng.choice([0.5, 1.0, 2.0]))
        off = rng.integers(-8000, 8001, size=nd).astype(np.float64)
        k = rng.integers(0, 10, size=(n, nd))
        frac = rng.choice([0.5 + 2.0 ** -12, 0.5 - 2.0 ** -12, 0.5, 0.5 + 2.0 ** -10, 0.5 - 2.0 ** -10, 0.25, 0.0, 0.75], size=(n, nd))
        c = off + (k + frac) * hint
    elif kind == "scaled":
        # the whole problem scaled by a power of two (exact): nothing may depend on the absolute size of a voxel
        f = float(rng.choice([2.0 ** -10, 2.0 ** 8]))
        c = rng.integers(-40, 41, size=(n, nd)) / 8.0 * f
        hint = float(rng.choice([0.5, 1.0, 2.0, 1.5])) * f
    elif kind == "flat":
        # no extent at all on one or two axes (a planar / linear / single-point arrangement): intervals (c, c)
        c = rng.integers(-24, 25, size=(n, nd)) / 8.0
        flat = rng.permutation(nd)[:int(rng.integers(1, nd + 1))]
        c[:, flat] = c[0, flat]
    else:
        c = rng.uniform(-25, 25, size=(n, nd))
    pool = list(COMMON) * 5 + list(UNKNOWN) + (list(table_keys) if table_keys else [])
    elems = [str(rng.choice(COMMON)) if rng.random() < 0.7 else str(pool[int(rng.integers(len(pool)))]) for _ in range(n)]
    labels = ["A", "B", "C", "AA", "a", "1"]
    nch = int(rng.integers(1, 5))
    use = [labels[int(i)] for i in rng.choice(len(labels), size=nch, replace=False)]
    chains = [use[int(rng.integers(nch))] for _ in range(n)]
    mol = {"coords": c.tolist(), "dtype": dtype, "elems": elems, "chains": chains, "kind": kind}
    if hint is not None:
        mol["rate_hint"] = hint
    if not plain:
        mol["layout"] = "C" if rng.random() < 0.45 else str(rng.choice(LAYOUTS[1:]))
        mol["sym"] = str(rng.choice(["U4", "natural", "natural", "U8"]))
    return mol


def gen_edit(rng, mol):
    """what a user does to a Structure between two conversions"""
    n, nd = len(mol["coords"]), len(mol["coords"][0])
    u = rng.random()
    if u < 0.5:
        if mol["dtype"] in ("int64", "int32"):
            by = rng.integers(-5, 6, size=nd).astype(np.float64)
        else:
            by = rng.integers(-40, 41, size=nd) / 8.0
        return {"edit": "translate", "by": by.tolist(), "inplace": bool(rng.random() < 0.5)}
    if u < 0.7:
        c = np.array(mol["coords"])[rng.permutation(n)]
        return {"edit": "coords", "coords": c.tolist()}
    if u < 0.8:
        pool = COMMON + ["FE", "ZN", "X", "c"]
        return {"edit": "elements", "elems": [str(pool[int(rng.integers(len(pool)))]) for _ in range(n)]}
    if u < 0.9:
        k = int(rng.integers(1, min(n, 3) + 1))
        return {"edit": "elements-inplace", "set": [[int(rng.integers(n)), str(rng.choice(["C", "N", "O", "S", "H", "X"]))] for _ in range(k)]}
    ch = list(mol["chains"])
    return {"edit": "chains", "chains": [ch[int(i)] for i in rng.permutation(n)]}


def gen_other(rng, mol):
    """another structure with the same number of atoms, the same chains, other coordinates and elements"""
    n, nd = len(mol["coords"]), len(mol["coords"][0])
    c = np.array(mol["coords"])[rng.permutation(n)]
    c = c + (rng.integers(-2, 3, size=nd) if mol["dtype"] in ("int64", "int32") else rng.integers(-12, 13, size=nd) / 8.0)
    if mol["dtype"] == "float32":
        c = c.astype(np.float32).astype(np.float64)
    e = [mol["elems"][int(i)] for i in rng.permutation(n)]
    return dict(mol, coords=c.tolist(), elems=e, kind="other")


def gen_cfg(rng, mol, force=None):
    nd = len(mol["coords"][0])
    czyx = _coords_array(mol).astype(np.float64)[:, ::-1]
    hint = mol.get("rate_hint")
    u = rng.random()
    if hint is not None and rng.random() < 0.7:
        rate = hint if rng.random() < 0.5 else [hint * float(x) for x in rng.choice([1.0, 1.0, 2.0, 0.5], size=nd)]
    elif u < 0.2:
        rate = None
    elif u < 0.55:
        rate = float(rng.choice(RATES))
        if rng.random() < 0.3:
            rate = float(max(1, int(round(rate))))
    else:
        rate = [float(x) for x in rng.choice(RATES, size=nd)]
        if rng.random() < 0.15:
            rate = [float(max(1, int(round(x)))) for x in rate]
    rk = None
    if rate is not None and np.ndim(rate) == 0:
        opts = ["scalar", "scalar", "0d-array"] + (["int", "int"] if _is_int(rate) else []) + (["f32-scalar"] if _is_f32(rate) else [])
        rk = str(rng.choice(opts))
        if rng.random() < 0.25:
            rate, rk = [rate], str(rng.choice(["tuple", "array", "list"]))
    elif rate is not None:
        opts = ["tuple", "list", "array"] + (["int-tuple", "int-array"] if _is_int(rate) else []) + (["f32-array"] if _is_f32(rate) else [])
        rk = str(rng.choice(opts))
    rr = resolved_rate({"rate": rate}, nd)
    r = np.array(rr)
    lo, hi = czyx.min(axis=0), czyx.max(axis=0)
    origin = None
    if rng.random() < 0.6:
        m = rng.random()
        if m < 0.35:      # below the minimum by a dyadic number of voxels
            origin = lo - rng.integers(0, 25, size=nd) / 8.0 * r
        elif m < 0.62:    # inside the molecule: atoms fall left of the grid
            origin = lo + (hi - lo) * rng.integers(0, 5, size=nd) / 8.0
            origin = np.round(origin * 8) / 8.0
        elif m < 0.72:    # exactly zero on every axis (a given origin, not a missing one)
            origin = np.zeros(nd)
        elif m < 0.8:     # whole numbers
            origin = np.floor(lo) - rng.integers(0, 3, size=nd)
        elif m < 0.9:
            origin = np.round(lo - rng.uniform(0, 3, size=nd), 3)
        else:
            origin = lo - rng.uniform(0, 3, size=nd)
        origin = [float(x) + 0.0 for x in origin]
    shape = None
    if rng.random() < 0.55:
        o_eff = np.array(origin) if origin is not None else lo
        full = np.clip(np.floor((hi - o_eff) / r), -1, 1000).astype(int) + 2
        m = rng.random()
        if m < 0.45:
            shape = full + rng.integers(0, 3, size=nd)
        elif m < 0.9:
            shape = np.maximum(1, (full * rng.uniform(0.3, 1.0, size=nd)).astype(int))
        else:
            shape = rng.integers(0, 4, size=nd)
        shape = [int(max(0, min(64, x))) for x in shape]
    chain = None
    labels = sorted(set(mol["chains"]))
    if rng.random() < 0.4:
        k = int(rng.integers(1, len(labels) + 1))
        pick = [labels[int(i)] for i in rng.choice(len(labels), size=k, replace=False)]
        if rng.random() < 0.15:
            pick.append("Z")
        if rng.random() < 0.35:
            # a name that is not a chain of this structure but close to one that is (longer / shorter / other case)
            rest = [x for x in labels if x not in pick] or pick      # close to a chain that is NOT selected, if there is one
            L = rest[int(rng.integers(len(rest)))]
            dec = [L + L[0], L + "B", L.swapcase(), L[:1] if len(L) > 1 else L + "1", L.lower() + L.upper()]
            dec = [x for x in dec if x and x not in labels and x != L]
            if dec:
                pick.insert(int(rng.integers(len(pick) + 1)), dec[int(rng.integers(len(dec)))])
        chain = ",".join(pick)
    if shape is None:
        # keep derived grids small: coarsen the sampling until the box is below ~250k voxels (every pass divides the
        # number of voxels by up to 2^nd, so this ends)
        while True:
            rr_ = np.array(resolved_rate({"rate": rate}, nd))
            ext = np.floor((hi - lo) / rr_) + 3
            if float(np.prod(ext)) <= 250000:
                break
            rate = (2.0 if rate is None else (rate * 2 if np.ndim(rate) == 0 else [x * 2 for x in rate]))
            rk = rk or "scalar"
    oopts = ["tuple", "list", "array"]
    if origin is not None:
        oopts += (["int-tuple", "int-array"] if _is_int(origin) else []) + (["f32-array"] if _is_f32(origin) else [])
    cfg = {"shape": shape, "rate": rate, "origin": origin, "chain": chain,
           "wt": None if rng.random() < 0.12 else str(rng.choice(["atomic_weight", "atomic_number"])),
           "api": "from_structure" if rng.random() < 0.3 else "to_volume",
           "rate_kind": rk or "tuple", "origin_kind": str(rng.choice(oopts)),
           "shape_kind": str(rng.choice(["tuple", "list", "array", "npint-tuple", "i32-array"]))}
    if rng.random() < 0.15:
        cfg["call"] = "pos"
    if cfg["api"] == "from_structure" and rng.random() < 0.3:
        cfg["followup"] = True
    if force:
        cfg.update(force)
    return cfg


def gen_boundary(rng):
    """atoms on and beside the faces of a given box: index -1, 0, n-1, n, with offsets 0, +-1/4, +-1/2 of a voxel (exact)"""
    nd = 3
    rate = [float(x) for x in rng.choice([0.5, 1.0, 2.0, 1.5, 0.75, 3.0], size=nd)]
    origin = [float(x) for x in rng.integers(-40, 41, size=nd) / 8.0]
    shape = [int(x) for x in rng.integers(1, 7, size=nd)]
    n = int(rng.integers(2, 14))
    j = np.empty((n, nd))
    for k in range(nd):
        j[:, k] = rng.choice([-1, 0, shape[k] - 1, shape[k], int(rng.integers(0, shape[k]))], size=n)
    d = rng.choice([-0.5, -0.25, 0.0, 0.0, 0.25, 0.5], size=(n, nd))
    czyx = np.array(origin) + (j + d) * np.array(rate)
    mol = {"coords": czyx[:, ::-1].tolist(), "dtype": "float64", "elems": [str(rng.choice(COMMON)) for _ in range(n)],
           "chains": [str(rng.choice(["A", "B"])) for _ in range(n)], "kind": "boundary",
           "layout": str(rng.choice(LAYOUTS)), "sym": "natural"}
    mode = int(rng.integers(4))
    cfg = {"shape": shape if mode in (0, 1) else None, "rate": rate, "origin": origin if mode in (0, 2) else None,
           "chain": None if rng.random() < 0.7 else "A,B" if rng.random() < 0.5 else "B",
           "wt": str(rng.choice(["atomic_weight", "atomic_number"])), "api": "from_structure" if rng.random() < 0.3 else "to_volume",
           "rate_kind": str(rng.choice(["tuple", "array"])), "origin_kind": str(rng.choice(["tuple", "array", "list"])),
           "shape_kind": str(rng.choice(["tuple", "array"]))}
    if cfg["chain"] == "B" and "B" not in mol["chains"]:
        cfg["chain"] = None
    return mol, cfg


def gen_neartie(rng, n):
    """coordinates constructed at (k + 1/2 + delta) voxels from a planned origin."""
    nd = 3
    rate = [float(x) for x in rng.choice([1.0, 2.0, 0.5, 1.5, 2.2, 1.35], size=nd)]
    origin = [float(x) for x in np.round(rng.uniform(-20, 20, size=nd), int(rng.choice([0, 1, 3])))]
    ks = rng.integers(0, 9, size=(n, nd))
    deltas = rng.choice([0.0, 0.0, 1e-15, -1e-15, 1e-12, -1e-12, 1e-9, -1e-9, 1e-6, -1e-6, 0.25, -0.25], size=(n, nd))
    czyx = np.array(origin) + (ks + 0.5 + deltas) * np.array(rate)
    if rng.random() < 0.5:   # nudge by single ulps
        czyx = np.nextafter(czyx, czyx + rng.choice([-1.0, 1.0], size=czyx.shape))
    c = czyx[:, ::-1]
    mol = {"coords": c.tolist(), "dtype": "float64", "elems": [str(rng.choice(COMMON)) for _ in range(n)],
           "chains": ["A"] * n, "kind": "neartie"}
    mode = int(rng.integers(3))
    cfg = {"shape": [11, 11, 11] if mode == 0 else None, "rate": rate, "origin": origin if mode != 2 else None, "chain": None,
           "wt": str(rng.choice(["atomic_weight", "atomic_number"])), "api": "to_volume",
           "rate_kind": "tuple", "origin_kind": "tuple", "shape_kind": "tuple"}
    return mol, cfg


# ----------------------------------------------------------------------------------------------------------------
# additive clauses (chains through the API, elements through files)
# ----------------------------------------------------------------------------------------------------------------
def embed(G, off, shape):
    out = np.zeros(shape, dtype=np.float64)
    src, dst = [], []
    for k in range(G.ndim):
        lo = max(0, off[k])
        hi = min(shape[k], off[k] + G.shape[k])
        if hi <= lo:
            return out, float(G.sum())
        dst.append(slice(lo, hi))
        src.append(slice(lo - off[k], hi - off[k]))
    out[tuple(dst)] = G[tuple(src)]
    return out, float(G.sum() - G[tuple(src)].sum())


def chain_diff(ctx, mol, cfg, S=None):
    """grid(all chains) - grid(chains S) == grid(the removed chains), all three from the real code."""
    labels = sorted(set(mol["chains"]))
    if len(labels) < 2 or cfg["origin"] is None:
        return
    if S is None:
        rng = np.random.default_rng(zlib.crc32(json.dumps(cfg, sort_keys=True).encode()))
        k = int(rng.integers(1, len(labels)))
        S = [labels[int(i)] for i in rng.choice(len(labels), size=k, replace=False)]
    Sc = [x for x in labels if x not in S]
    base = dict(cfg, chain=None, api="to_volume")
    st = make_structure(mol)
    full = call_real(st, base)
    a = call_real(st, dict(base, chain=",".join(S)))
    b = call_real(st, dict(base, chain=",".join(Sc)))
    inp = {"mol": mol, "cfg": base, "chains_kept": S, "chains_removed": Sc}
    if "raised" in full or "raised" in a or "raised" in b:
        ctx.spec("chain restriction returns", inp, False, [full.get("raised"), a.get("raised"), b.get("raised")], key="to_volume:raised")
        return
    r = full["rate"]
    if any(x["origin"].shape != r.shape or x["rate"].shape != r.shape or not np.all(np.isfinite(x["origin"]))
           or not np.all(np.isfinite(x["rate"])) or np.any(x["rate"] <= 0) for x in (full, a, b)):
        ctx.spec("returned origin and sampling rate are finite, one per axis, the rate positive", inp, False,
                 [[x["origin"].tolist(), x["rate"].tolist()] for x in (full, a, b)], key="to_volume:origin")
        return
    F = full["grid"].astype(np.float64)
    parts = []
    for g in (a, b):
        off = (g["origin"] - full["origin"]) / r
        if np.any(np.abs(off - np.round(off)) > 1e-6):
            ctx.count("chain-diff:skipped-non-integer-offset")
            return
        e, lost = embed(g["grid"].astype(np.float64), [int(x) for x in np.round(off)], F.shape)
        parts.append(e)
    K = occupancy_bound(_coords_array(mol)[:, ::-1], full["origin"], r, F.shape)
    ok = diff_close(F, parts[0], parts[1], K)
    ctx.spec("restricting to chains changes the grid by exactly the removed atoms", inp, ok,
             {"max_abs_diff": float(np.abs(F - parts[0] - parts[1]).max()) if F.size else 0.0}, key="to_volume:chain-diff")
    # outside counts add up when the shape is given
    if cfg["shape"] is not None:
        ctx.spec("outside counts of complementary chain subsets add up", inp, a["outside"] + b["outside"] == full["outside"],
                 [a["outside"], b["outside"], full["outside"]], key="to_volume:outside-count")
    ctx.count("chain-diff")
    ctx.distinct(("chain-diff", zlib.crc32(json.dumps(mol["coords"]).encode()), json.dumps(base, sort_keys=True), S))


def element_filter(ctx, rng, mol, cfg, E=None, decoy=None, filters=None, ext=None, fchain="?", same_path=None, previous=None):
    """Density.from_structure(file, filter_by_elements=E[, chain=...]): the grid changes by exactly the removed atoms.
    `same_path`: the file goes to a path that held another structure before (which was read through the same API)."""
    from tme import Density, Structure
    from pv import env
    ext = ext or ("cif" if rng.random() < 0.4 else "pdb")
    plain = lambda m: {"coords": m["coords"], "dtype": m["dtype"], "elems": m["elems"], "chains": m["chains"], "kind": m.get("kind", "?")}
    if same_path is None:
        same_path = bool(rng.random() < 0.5)
    if same_path:
        path = os.path.join(env.scratch(), "c10_same." + ext)
        held = _TABLE.setdefault("same_path", {})
        if previous is not None:      # replay: put the earlier content there and read it once, as the original run did
            try:
                make_structure(plain(previous)).to_file(path)
                Density.from_structure(path)
            except Exception:  # noqa
                pass
        else:
            previous = held.get(ext)
        held[ext] = plain(mol)
    else:
        path = os.path.join(env.scratch(), "c10_%08x.%s" % (int(rng.integers(1 << 32)), ext))
    src = make_structure(plain(mol))
    try:
        src.to_file(path)
        parsed = Structure.from_file(path)
    except Exception:  # noqa  (file formats are C09's business)
        ctx.count("element-filter:skipped-io")
        return
    pm = {"coords": parsed.atom_coordinate.astype(np.float64).tolist(), "dtype": str(parsed.atom_coordinate.dtype),
          "elems": [str(x) for x in parsed.element_symbol], "chains": [str(x) for x in parsed.chain_identifier], "kind": "file"}
    if pm["dtype"] not in ("float32", "float64") or not pm["coords"]:
        ctx.count("element-filter:skipped-io")
        return
    present = sorted(set(pm["elems"]))
    if len(present) < 2:
        return
    if E is None:
        k = int(rng.integers(1, len(present)))
        E = {present[int(i)] for i in rng.choice(len(present), size=k, replace=False)}
    Ec = set(present) - E
    # decoys: element names that are NOT in the file but close to one that is (longer: 'C' -> 'CA', 'S' -> 'SE'; other case);
    # they select nothing, so the expected grids are unchanged
    two = ["CA", "CL", "CU", "CO", "CD", "NA", "NE", "NI", "SE", "SI", "SR", "OS", "HE", "HG", "FE", "PT", "PB", "MG", "MN", "ZN", "BR", "KR"]
    decoys = [x for x in two if x not in present and x[0] in present] + [x.lower() for x in present if x.lower() not in present]
    fE, fEc = set(E), set(Ec)
    if filters is not None:
        fE, fEc = set(filters[0]), set(filters[1])
    elif decoys and (decoy if decoy is not None else rng.random() < 0.6):
        fE |= {decoys[int(rng.integers(len(decoys)))]}
        fEc |= {decoys[int(rng.integers(len(decoys)))], decoys[int(rng.integers(len(decoys)))]}
    # optionally a chain restriction on top (only when none of the three selections becomes empty)
    labels = sorted(set(pm["chains"]))
    if fchain == "?":
        fchain = None
        if len(labels) >= 2 and rng.random() < 0.35:
            k = int(rng.integers(1, len(labels)))
            cand = [labels[int(i)] for i in rng.choice(len(labels), size=k, replace=False)]
            if all(any(c in cand and (keep is None or e in keep) for e, c in zip(pm["elems"], pm["chains"])) for keep in (None, E, Ec)):
                fchain = ",".join(cand)
    in_chain = (lambda c: True) if fchain is None else (lambda c, w=set(fchain.split(",")): c in w)
    kw = {}
    if cfg["shape"] is not None:
        kw["shape"] = tuple(cfg["shape"])
    if cfg["origin"] is not None:
        kw["origin"] = tuple(cfg["origin"])
    if cfg["rate"] is not None:
        kw["sampling_rate"] = cfg["rate"]
    if cfg["wt"] is not None:
        kw["weight_type"] = cfg["wt"]
    if fchain is not None:
        kw["chain"] = fchain
    inp = {"mol": pm, "cfg": dict(cfg, chain=None, api="from_structure(file)"), "elements_kept": sorted(E),
           "filters_passed": [sorted(fE), sorted(fEc)], "decoy": bool(fE != E or fEc != Ec), "file_ext": ext, "file_chain": fchain,
           "same_path": same_path, "previous_at_same_path": previous if same_path else None}
    try:
        dens = [Density.from_structure(path, filter_by_elements=f, **kw) for f in (None, fE, fEc)]
    except Exception as e:  # noqa
        ctx.spec("element restriction returns", inp, False, type(e).__name__ + ":" + str(e)[:100], key="to_volume:raised")
        return
    if any(int(np.prod(dd.data.shape, dtype=np.float64)) > MAX_VOXELS for dd in dens):
        ctx.spec("the grid is the requested box, or the minimum box holding the atoms when the shape is derived", inp, False,
                 {"got": [list(dd.data.shape) for dd in dens]}, key="to_volume:shape")
        return
    # each of the three obeys the voxel clauses for the atoms it should contain
    for dd, keep in zip(dens, (set(present), E, Ec)):
        idxs = [i for i, e in enumerate(pm["elems"]) if e in keep and in_chain(pm["chains"][i])]
        sub = {"coords": [pm["coords"][i] for i in idxs], "dtype": pm["dtype"], "elems": [pm["elems"][i] for i in idxs],
               "chains": [pm["chains"][i] for i in idxs], "kind": "file"}
        real = {"grid": np.asarray(dd.data), "origin": np.asarray(dd.origin, dtype=np.float64).reshape(-1),
                "rate": np.asarray(dd.sampling_rate, dtype=np.float64).reshape(-1),
                "outside": int(dd.metadata.get("nAtoms_outOfBound", -1))}
        c2 = dict(cfg, chain=None)
        res, _ = spec_eval(ctx, sub, c2, real, relaxed_ties=False)
        if any(not r[1] for r in res) and cfg["origin"] is not None and cfg["shape"] is None:
            res2, _ = spec_eval(ctx, sub, c2, real, relaxed_ties=True)
            keyo = KEY_TIE if all(r[1] for r in res2) else None
        else:
            keyo = None
        if keyo == KEY_TIE:
            _TABLE["tie_cases"] = _TABLE.get("tie_cases", 0) + 1
            ctx.count("known-tie-class-cases")
        for clause, good, detail in res:
            if keyo == KEY_TIE and not good and _TABLE["tie_cases"] > 12:
                ctx.evaluations += 1
                continue
            ctx.spec("element-filtered density: " + clause, dict(inp, kept=sorted(keep)), good, detail,
                     key=keyo or ("from_structure:elements:" + clause))
    if cfg["origin"] is not None:
        F = dens[0].data.astype(np.float64)
        r = np.asarray(dens[0].sampling_rate, dtype=np.float64)
        parts = []
        for g in dens[1:]:
            off = (np.asarray(g.origin, dtype=np.float64) - np.asarray(dens[0].origin, dtype=np.float64)) / r
            if not np.all(np.isfinite(off)) or np.any(np.abs(off - np.round(off)) > 1e-6):
                return      # (a non-finite origin / rate has already failed the voxel clause above)
            parts.append(embed(g.data.astype(np.float64), [int(x) for x in np.round(off)], F.shape)[0])
        sel = [i for i, c in enumerate(pm["chains"]) if in_chain(c)]
        K = occupancy_bound(np.array([pm["coords"][i] for i in sel]).reshape(len(sel), -1)[:, ::-1],
                            np.asarray(dens[0].origin, dtype=np.float64), r, F.shape)
        ctx.spec("restricting to elements changes the grid by exactly the removed atoms", inp,
                 diff_close(F, parts[0], parts[1], K), key="from_structure:elements-diff")
    ctx.count("element-filter:" + ext + ("+chain" if fchain else "") + ("+path-reused" if same_path and previous else ""))
    ctx.distinct(("element-filter", zlib.crc32(json.dumps(pm["coords"]).encode()), sorted(E), json.dumps(inp["cfg"], sort_keys=True)))


def check_symbol_weights(ctx, rng):
    """one atom per symbol, each in its own voxel: the voxel holds the table weight of exactly that symbol (every key of the
    table, case / length variants of keys, symbols that are no key at all -> 0).  The expected weights are the constants of
    the Lean table, not what the repository's accessor says."""
    keys = sorted(_TABLE["t"])
    probe = list(keys) + UNKNOWN
    probe += [k.lower() for k in keys[:30]] + [k.capitalize() for k in keys if len(k) == 2][:30]
    probe += [k + "X" for k in ("C", "N", "O", "H", "S")] + ["C1", "CAA", "FEE", " C", "C ", "c", "n", "o"]
    probe = list(dict.fromkeys(probe))
    probe = [probe[int(i)] for i in rng.permutation(len(probe))]
    n = len(probe)
    for wt in ("atomic_weight", "atomic_number", None):
        for sym in ("U4", "natural"):
            mol = {"coords": [[float(i), 0.0, 0.0] for i in range(n)], "dtype": "float64", "elems": probe,
                   "chains": ["A"] * n, "kind": "symbols", "sym": sym}
            cfg = {"shape": [1, 1, n], "rate": None, "origin": [0.0, 0.0, 0.0], "chain": None, "wt": wt,
                   "api": "to_volume" if sym == "U4" else "from_structure", "rate_kind": "tuple", "origin_kind": "tuple", "shape_kind": "tuple"}
            real = call_real(make_structure(mol), cfg)
            want = ctx.driver.call("c10.weights", wt=_wt(cfg), syms=probe)
            unit = 1e-9 if _wt(cfg) == "atomic_weight" else 1.0
            inp = {"mol": mol, "cfg": cfg, "history": []}
            if "raised" in real:
                ctx.spec("to_volume returns for a non-empty subset and valid arguments", inp, False, real, key="to_volume:raised")
                continue
            g = real["grid"].astype(np.float64).reshape(-1)
            bad = [{"symbol": s_, "grid": float(g[i]), "table": w * unit} for i, (s_, w) in enumerate(zip(probe, want))
                   if g.size != n or abs(g[i] - w * unit) > 1e-6 * max(1.0, abs(w * unit))]
            ctx.spec("an atom weighs what the element table says for exactly its symbol (0 for a symbol that is no key)", inp,
                     not bad, {"symbols": bad[:6]}, key="to_volume:weight-of-symbol")
            ctx.count("symbol-weights")


def run_large(ctx, rng, keys):
    """structures with more than 10 000 atoms (thresholds at which an implementation may switch algorithms)"""
    for i in range(ctx.budget(1, 3)):
        n = int(rng.choice([10001, 12000, 16400])) if not ctx.thorough else int(rng.choice([10001, 20000, 33000]))
        mol = gen_mol(rng, n, kind=str(rng.choice(["dyadic", "pdb3", "dyadic-wide", "free"])), table_keys=keys)
        st = make_structure(mol)
        hist = []
        for j in range(2):
            cfg = gen_cfg(rng, mol)
            check_case(ctx, mol, cfg, st=st, history=list(hist))
            hist.append(cfg)
        chain_diff(ctx, mol, gen_cfg(rng, mol, force={"chain": None}))


# ----------------------------------------------------------------------------------------------------------------
def check_table(ctx):
    t, e = table_from_repo()
    _TABLE["t"], _TABLE["e"] = t, e
    model = ctx.driver.call("c10.table")
    mt = {k: (z, w) for k, z, w in model}
    bad = []
    if len(model) != len(mt):
        bad.append("duplicate keys in the model table")
    for k in sorted(set(t) | set(mt)):
        if k not in t or k not in mt:
            bad.append(f"{k}: only in {'repo' if k in t else 'model'}")
        elif t[k][0] != mt[k][0] or abs(t[k][1] * 1e9 - mt[k][1]) > 1e-3:
            bad.append(f"{k}: repo {t[k]} model {mt[k]}")
    dflt = e._default
    if dflt.atomic_number != 0 or dflt.atomic_weight != 0:
        bad.append(f"default entry {dflt.atomic_number},{dflt.atomic_weight} (model: 0, 0)")
    ctx.obligation("element-table == Pm.C10.elementTable", not bad, bad[:8])
    # lookup semantics (exact key, default for anything else) through the real accessor
    from tme import Structure  # noqa
    probe = sorted(t)[:] + UNKNOWN + ["h", "Ca", "CA", "FE", "Fe", "ZN", " C", "C "]
    st = make_structure({"coords": [[0.0, 0.0, 0.0]], "dtype": "float64", "elems": ["C"], "chains": ["A"]})
    for wt, unit in (("atomic_weight", 1e9), ("atomic_number", 1)):
        impl = [int(round(float(x) * unit)) for x in st._get_atom_weights(atoms=probe, weight_type=wt)]
        ctx.agree("_get_atom_weights:" + wt, {"symbols": probe}, impl, ctx.driver.call("c10.weights", wt=wt, syms=probe))
    return not bad


def check_rint(ctx, rng):
    """numpy.rint == model rint on exactly representable quotients (the rounding contract)."""
    qs = [Fraction(int(k), 8) for k in range(-80, 81)] + [Fraction(int(rng.integers(-10 ** 6, 10 ** 6)), 1 << int(rng.integers(0, 20)))
                                                           for _ in range(300)]
    model = ctx.driver.call("c10.rint", qs=[[q.numerator, q.denominator] for q in qs])
    impl = np.rint(np.array([float(q) for q in qs])).astype(int).tolist()
    ctx.agree("np.rint", {"n": len(qs)}, impl, [m[0] for m in model])
    for q, m in zip(qs, impl):
        ctx.spec("rint is a nearest integer", {"q": str(q)}, abs(Fraction(m) - q) <= Fraction(1, 2), key="numpy:rint")


def sizes(ctx, rng):
    if ctx.thorough:
        return int(rng.choice([1, 2, 3, 5, 8, 13, 30, 60, 120, 250, 400]))
    return int(rng.choice([1, 2, 3, 5, 8, 13, 30, 60]))


def run_corpus(ctx):
    from pv import env
    for f in sorted(glob.glob(os.path.join(env.VERIF, "corpus", "C10_*.json"))):
        rec = json.load(open(f))
        prev = []      # the earlier cases of the file, as conversions of other structures (a replay then reproduces leaks between them)
        for case in rec["cases"]:
            check_case(ctx, case["mol"], case["cfg"], history=prev + (case.get("history") or []), mol0=case.get("mol0"))
            prev = (prev + [{"other": {"mol": case["mol"], "cfg": case["cfg"]}}])[-3:]
            ctx.count("corpus")



# ----------------------------------------------------------------------------------------------------------------
# kernels: van der Waals spheres, scattering-factor support, the deposit before the Gaussian filter, file filters
# (Model/C10K.lean).  Float VALUES of the spline profile / the Gaussian filter are not modelled: the profile is replaced
# by the constant 1 (then the grid is the number of supports covering a voxel, an integer) and the filter by the
# identity (then the grid is the deposit handed to the filter); with the real profile only "zero outside the modelled
# support" and the raised / returned outcome are compared.
# ----------------------------------------------------------------------------------------------------------------
K_COMMON = ["C", "N", "O", "H", "S", "P"]
K_RARE = ["ZN", "FE", "MG", "CA", "NA", "CL", "SE", "K"]
K_RATES_DYADIC = [0.5, 1.0, 2.0, 0.75, 1.5, 3.0, 1.0, 1.25]
K_RATES_OTHER = [1.7, 0.34, 2.2, 1.35, 0.85, 1.1, 0.55, 1.52, 1.8, 0.9]
K_WTS = ["van_der_waals_radius", "scattering_factors", "gaussian"]


def vdwr_from_repo():
    from tme.structure import Elements
    e = Elements()
    return {k: (None if not np.isfinite(v.vdwr) else v.vdwr) for k, v in e._elements.items()}, e._default.vdwr


def check_vdwr_table(ctx):
    t, dflt = vdwr_from_repo()
    m = ctx.driver.call("c10.vdwrTable")
    mt = {k: v for k, v in m}
    ok = (len(m) == len(mt) and set(mt) == set(t) and dflt == 0
          and all((mt[k] is None and t[k] is None) or (mt[k] is not None and t[k] is not None and float(t[k]) == float(mt[k])) for k in t))
    ctx.obligation("vdwr-table", ok, None if ok else {"repo": {k: t[k] for k in t if mt.get(k, -1) != t[k]}, "default": dflt})
    _TABLE["vdwr"] = t
    return ok


def _vdwr(sym):
    return _TABLE["vdwr"].get(sym, 0)


def _has_profile(sym):
    """the scattering-factor table (float territory, not modelled) knows the symbol"""
    c = _TABLE.setdefault("profile", {})
    if sym not in c:
        from tme.preprocessor import atom_profile
        try:
            atom_profile(atom=sym, M=1.35, method="peng1995", lfilter=False)
            c[sym] = True
        except Exception:  # noqa
            c[sym] = False
    return c[sym]


def gen_kernel_case(rng, wt=None):
    """small boxes (<= ~14 voxels per axis) with atoms at quarter / eighth-voxel offsets; exact half-voxel offsets only
    where the float evaluation is exact (dyadic rate) and the returned origin is the one used for rounding"""
    wt = wt or str(rng.choice(K_WTS, p=[0.5, 0.3, 0.2]))
    nd = 3 if wt != "van_der_waals_radius" or rng.random() < 0.85 else 2
    dy = rng.random() < 0.6
    pool = K_RATES_DYADIC if dy else K_RATES_DYADIC + K_RATES_OTHER * 3
    mode = str(rng.choice(["scalar", "per-axis", "none"], p=[0.4, 0.45, 0.15]))
    if mode == "none":
        rate, rvec = None, [1.0] * nd
    elif mode == "scalar":
        rate = float(rng.choice(pool))
        rvec = [rate] * nd
    else:
        rate = [float(rng.choice(pool)) for _ in range(nd)]
        rvec = list(rate)
    exact = all(_is_dyadic([x]) for x in rvec)
    origin_mode = str(rng.choice(["derived", "given", "given+shape", "shape"], p=[0.3, 0.2, 0.35, 0.15]))
    adjust = origin_mode == "given"
    offs = [0.0, 0.25, 0.75, 0.125, 0.375] + ([0.5, 0.5] if exact and not adjust else [])
    n = int(rng.integers(1, 9))
    E = rng.integers(2, 9, size=nd)
    u = rng.integers(0, E + 1, size=(n, nd)) + rng.choice(offs, size=(n, nd))
    if rng.random() < 0.3 and n > 2:
        u[1] = u[0] + rng.integers(-1, 2, size=nd)          # overlapping spheres
    base = rng.integers(-40, 41, size=nd) / 4.0
    czyx = base + u * np.array(rvec)
    elems = [str(rng.choice(K_COMMON)) if rng.random() < 0.75 else
             (str(rng.choice(K_RARE)) if rng.random() < 0.7 or wt == "gaussian" else str(rng.choice(["Xx", "D", ""]))) for _ in range(n)]
    if wt == "scattering_factors":
        elems = [e if e in K_COMMON + K_RARE else "C" for e in elems]
    labels = ["A", "B"] if rng.random() < 0.5 else ["A"]
    chains = [labels[int(rng.integers(len(labels)))] for _ in range(n)]
    mol = {"coords": czyx[:, ::-1].tolist(), "dtype": "float64", "elems": elems, "chains": chains, "kind": "kernel"}
    origin = shape = None
    if origin_mode in ("given", "given+shape"):
        origin = (base + np.array(rvec) * rng.integers(-2, 3, size=nd)).tolist()
    if origin_mode in ("given+shape", "shape"):
        shape = [int(x) for x in rng.integers(2, 13, size=nd)]
    chain = None
    if len(labels) > 1 and rng.random() < 0.3 and "A" in chains:
        chain = "A"
    cfg = {"shape": shape, "rate": rate, "origin": origin, "chain": chain, "wt": wt,
           "api": "from_structure" if rng.random() < 0.4 else "to_volume"}
    if wt == "gaussian":
        cfg["resolution"] = float(rng.choice([2.0, 3.0, 4.0, 6.0]))
    if wt == "scattering_factors" and rng.random() < 0.06:
        cfg["wt"] = "lowpass_scattering_factors"
    return mol, cfg, rvec


def _molmap_pad(resolution, rvec):
    """the padding of `_position_to_molmap`, computed the way the code does (floats; not modelled)"""
    sampling_rate = np.array(rvec, dtype=np.float64)
    sigma_factor = 1 / (np.pi * np.sqrt(2))
    pad = int(3 * resolution)
    sigma = sigma_factor * resolution
    sigma_grid = sigma / sampling_rate
    smax = np.max(sigma_grid)
    arr = np.arange(0, pad)
    gaussian = np.exp(-0.5 * (arr / smax) ** 2) * np.power(2 * np.pi, -1.5) * np.power(sigma, -3.0)
    pad_cutoff = np.max(arr[gaussian > 1e-8])
    if arr.size != 0:
        pad = int(pad_cutoff) + 1
    return pad


def call_kernel(st, cfg, hook=None):
    """the real code with `weight_type` in force; hook: None | 'unit-profile' | 'identity-filter'"""
    import tme.structure as S
    from tme import Density
    kw = {}
    if cfg["shape"] is not None:
        kw["shape"] = tuple(cfg["shape"])
    if cfg["rate"] is not None:
        kw["sampling_rate"] = cfg["rate"] if np.ndim(cfg["rate"]) == 0 else tuple(cfg["rate"])
    if cfg["origin"] is not None:
        kw["origin"] = tuple(cfg["origin"])
    if cfg["chain"] is not None:
        kw["chain"] = cfg["chain"]
    kw["weight_type"] = cfg["wt"]
    if "resolution" in cfg:
        kw["weight_type_args"] = {"resolution": cfg["resolution"]}
    saved = (S.atom_profile, S.Preprocessor)
    try:
        if hook == "unit-profile":
            S.atom_profile = lambda *a, **k: (lambda d: np.ones(np.shape(d), dtype=np.float64))
        if hook == "identity-filter":
            class _Identity:
                def gaussian_filter(self, template, sigma, cutoff_value=4.0, **kw2):
                    return template
            S.Preprocessor = _Identity
        try:
            if cfg["api"] == "from_structure":
                d = Density.from_structure(st, **kw)
                grid, origin, rate, meta = d.data, d.origin, d.sampling_rate, d.metadata
            else:
                grid, origin, rate = st.to_volume(**kw)
                meta = st.metadata
            return {"grid": np.array(grid), "origin": np.array(origin, dtype=np.float64).reshape(-1),
                    "rate": np.array(rate, dtype=np.float64).reshape(-1), "outside": int(meta.get("nAtoms_outOfBound", -1))}
        except Exception as e:  # noqa
            return {"raised": type(e).__name__, "msg": str(e)[:200]}
    finally:
        S.atom_profile, S.Preprocessor = saved


def _float_radii_agree(elems, rvec, wt, positions=None, shape=None):
    """the code evaluates vdwr / (rate * 100) in float64, the model exactly: the two can differ when the quotient is
    (nearly) an integer.  True iff ceil / floor of the quantities the code uses are the same in both."""
    r = np.array(rvec, dtype=np.float64)
    for i, e in enumerate(elems):
        v = _vdwr(e)
        if v is None:
            return False
        qf = np.divide(v, r * 100)
        qx = [Fraction(int(v)) / (Fraction(float(x)) * 100) for x in rvec]
        if wt == "van_der_waals_radius":
            if [int(x) for x in np.ceil(qf)] != [int(-((-q).__floor__())) for q in qx]:
                return False
        elif positions is not None:
            p = np.array(positions[i], dtype=np.float64)
            if [int(x) for x in np.ceil(p - qf)] != [int(-((-(Fraction(int(a)) - q)).__floor__())) for a, q in zip(positions[i], qx)]:
                return False
            if [int(x) for x in np.floor(p + qf)] != [int((Fraction(int(a)) + q).__floor__()) for a, q in zip(positions[i], qx)]:
                return False
    return True


def check_kernel_case(ctx, mol, cfg, rvec=None):
    d = ctx.driver
    nd = len(mol["coords"][0])
    wt = cfg["wt"]
    fam = "scattering" if "scattering" in wt else ("vdw" if wt == "van_der_waals_radius" else wt)
    inp = {"mol": mol, "cfg": cfg, "kernel": True}
    rvec = rvec or resolved_rate(cfg, nd)
    sub = subset_indices(mol, cfg["chain"])
    st = make_structure(mol)
    atoms = [{"xyz": [_ratio(x) for x in row], "elem": e, "chain": c}
             for row, e, c in zip(_coords_array(mol), mol["elems"], mol["chains"])]
    margs = dict(nd=nd, atoms=atoms, shape=cfg["shape"],
                 rate=None if cfg["rate"] is None else [_ratio(x) for x in np.atleast_1d(cfg["rate"])],
                 origin=None if cfg["origin"] is None else [_ratio(x) for x in cfg["origin"]], chain=cfg["chain"], wt=wt)
    if fam == "gaussian":
        margs["pad"] = _molmap_pad(cfg["resolution"], rvec)
    # ambiguity of the float rounding of (c - o) / r (as in the point-weight stream): such cases are counted, not compared
    czyx = np.array([mol["coords"][i] for i in sub], dtype=np.float64).reshape(len(sub), nd)[:, ::-1]
    o_used = np.array(cfg["origin"], dtype=np.float64) if cfg["origin"] is not None else (czyx.min(axis=0) if len(sub) else np.zeros(nd))
    if fam == "gaussian" and len(sub):
        o_used2 = czyx.min(axis=0) - margs["pad"] * np.array(rvec)
    else:
        o_used2 = o_used
    amb = False
    for oo in (o_used, o_used2):
        nh, q = near_half(czyx, oo, np.array(rvec), "float64")
        exact_in = _is_dyadic(czyx) and _is_dyadic(oo) and _is_dyadic(rvec) and _is_dyadic(q)
        amb = amb or (bool(np.any(nh)) and not exact_in)
    ctx.count("kernel:" + fam)
    if amb:
        ctx.count("kernel:skipped-near-tie-inexact")
        return True
    model = d.call("c10.toVolumeK", **margs)
    hook = {"scattering": "unit-profile", "gaussian": "identity-filter"}.get(fam)
    real = call_kernel(st, cfg, hook)
    n_before = len(ctx.spec_failures) + len(ctx.disagreements)
    # the positions of the atoms inside (point-weight model of the same arguments) decide whether the float radii /
    # support bounds the code computes are the exact ones; if not, the case is counted and not compared - whatever the
    # model's outcome (an exact R just below 1 gives an empty range, i.e. IndexError, where the float R == 1.0 does not)
    if fam in ("vdw", "scattering") and model != "err:NaNRadius":
        pos_all = d.call("c10.toVolume", **dict(margs, wt="atomic_number"))
        if not isinstance(pos_all, str):
            inside = [(i, p) for i, p in zip(sub, pos_all["allpos"]) if all(0 <= a < s for a, s in zip(p, pos_all["shape"]))]
            kept_elems = [mol["elems"][i] for i, _ in inside]
            kept_pos = [p for _, p in inside]
            if any(_vdwr(e) is None for e in kept_elems):
                ctx.count("kernel:nan-radius")
                return True
            if not _float_radii_agree(kept_elems, rvec, wt, kept_pos, pos_all["shape"]):
                ctx.count("kernel:skipped-radius-quotient-rounds-differently")
                return True
            if fam == "vdw" and kept_elems and max(max(int(np.ceil(_vdwr(e) / (x * 100))) for x in rvec) for e in kept_elems) > 13:
                ctx.count("kernel:skipped-radius>13-voxels")
                return True
    if isinstance(model, str):
        if model == "err:NaNRadius":
            ctx.count("kernel:nan-radius")
            return True
        ctx.agree("to_volume(" + fam + "):outcome", inp, "raised" if "raised" in real else "returned", "raised")
        ctx.count("kernel-outcome:" + model)
        if model == "err:IndexError" and "raised" in real:
            ctx.agree("to_volume(scattering):empty range on the first or last axis raises IndexError", inp, real["raised"], "IndexError")
        if model == "err:Mismatch" and "raised" in real:
            ctx.agree("to_volume(gaussian):atoms outside the requested box make the deposit raise", inp, real["raised"], "ValueError")
        return len(ctx.spec_failures) + len(ctx.disagreements) == n_before
    if "raised" in real:
        ctx.agree("to_volume(" + fam + "):outcome", inp, "raised:" + real["raised"] + ":" + real.get("msg", ""), "returned")
        return False
    G = real["grid"]
    shape = [int(x) for x in model["shape"]]
    ctx.agree("to_volume(" + fam + "):shape", inp, list(G.shape), shape)
    ctx.agree("to_volume(" + fam + "):outside", inp, real["outside"], model["outside"])
    mo = np.array([Fraction(a, b) for a, b in model["origin"]], dtype=np.float64)
    ctx.agree("to_volume(" + fam + "):origin", inp, real["origin"].tolist(), mo.tolist(),
              eq=lambda a, b: len(a) == len(b) and all(abs(x - y) <= 1e-9 * max(1.0, abs(x), abs(y)) for x, y in zip(a, b)))
    ctx.agree("to_volume(" + fam + "):rate", inp, real["rate"].tolist(), [float(Fraction(a, b)) for a, b in model["rate"]])
    if list(G.shape) != shape:
        return False
    M = dense_from_sparse(model["grid"], shape, 1.0)
    what = {"vdw": "number of spheres covering each voxel", "scattering": "number of supports covering each voxel (profile == 1)",
            "gaussian": "deposit handed to the Gaussian filter"}[fam]
    same = bool(np.array_equal(G.astype(np.float64), M))
    ctx.agree("to_volume(" + fam + "):" + what, inp, "equal" if same else
              {"differs_at": np.argwhere(G.astype(np.float64) != M)[:5].tolist(), "real_total": float(G.sum()), "model_total": float(M.sum())}, "equal")
    # ---- clauses on the real outputs
    if fam == "vdw":
        ro, rr = real["origin"], real["rate"]
        nh, q = near_half(czyx, ro, rr, "float64")
        exact_in = _is_dyadic(czyx) and _is_dyadic(ro) and _is_dyadic(rr) and _is_dyadic(q)
        if bool(np.any(nh)) and not exact_in:
            ctx.count("kernel:spec-skipped-near-tie-inexact")
        else:
            sp = d.call("c10.specVdw", nd=nd, origin=[_ratio(x) for x in ro], rate=[_ratio(x) for x in rr], shape=list(G.shape),
                        atoms=[{"xyz": [_ratio(x) for x in mol["coords"][i]], "vdwr": int(_vdwr(mol["elems"][i]))} for i in sub])
            S_ = dense_from_sparse(sp["grid"], list(G.shape), 1.0)
            good = bool(np.array_equal(G.astype(np.float64), S_))
            ctx.spec("van der Waals volume: a voxel holds the number of atoms (inside the grid) whose sphere of ceil(vdwr/(100*rate)) voxels "
                     "around round((zyx - origin)/rate) contains it", inp, good,
                     None if good else {"differs_at": np.argwhere(G.astype(np.float64) != S_)[:5].tolist()}, key="to_volume:vdw-voxel")
            # symmetry of every sphere that is not clipped by the box
            for p, k in zip(sp["idx"], sp["radii"]):
                if all(k_ <= a < s - k_ for a, k_, s in zip(p, k, G.shape)) and all(0 <= a < s for a, s in zip(p, G.shape)):
                    ctx.count("kernel:vdw-unclipped-sphere")
                    break
            else:
                ctx.count("kernel:vdw-all-spheres-clipped")
    if fam == "scattering":
        # the real profile: nothing outside the modelled support, same outcome
        real2 = call_kernel(st, cfg, None)
        if not all(_has_profile(mol["elems"][i]) for i in sub):
            ctx.count("kernel:scattering-real-profile-skipped-element-without-profile")
        elif "raised" in real2:
            ctx.agree("to_volume(scattering, real profile):outcome", inp, "raised:" + real2["raised"] + ":" + real2.get("msg", ""), "returned")
        else:
            G2 = real2["grid"]
            good = G2.shape == M.shape and bool(np.all(G2[M == 0] == 0))
            ctx.spec("scattering factors: no voxel outside the support range(ceil(p - R), floor(p + R)) of an atom receives a contribution",
                     inp, good, None if good else {"nonzero_outside": np.argwhere((G2 != 0) & (M == 0))[:5].tolist()}, key="to_volume:scattering-support")
            ctx.count("kernel:scattering-support-voxels-nonzero", int(np.count_nonzero(G2[M != 0])))
            ctx.count("kernel:scattering-support-voxels", int(np.count_nonzero(M)))
    if fam == "gaussian":
        tot = float(sum(weights_for([mol["elems"][i] for i in sub], "atomic_number")[0]))
        good = abs(float(G.astype(np.float64).sum()) - tot) <= 1e-6 * max(1.0, tot)
        if model["outside"]:
            # exactly one atom inside the requested box: numpy broadcasts its weight to every atom (mirrored by the model)
            ctx.count("kernel:gaussian-single-weight-broadcast")
            good = True
        ctx.spec("gaussian: the array handed to the filter holds the summed atomic number of ALL atoms of the subset", inp, good,
                 {"sum": float(G.sum()), "expected": tot}, key="to_volume:gaussian-deposit-total")
        pad = margs["pad"]
        nz = np.argwhere(G != 0)
        good = bool(len(nz) == 0 or (nz.min() >= pad and np.all(nz.max(axis=0) + pad < np.array(G.shape))))
        ctx.spec("gaussian: every atom is at least `pad` voxels from every face of the array", inp, good, {"pad": pad, "shape": list(G.shape)},
                 key="to_volume:gaussian-margin")
        if min(rvec) >= 0.5 and tot > 0 and not model["outside"]:
            real2 = call_kernel(st, cfg, None)
            if "raised" not in real2:
                s2 = float(real2["grid"].astype(np.float64).sum())
                ctx.count("kernel:gaussian-filtered-mass-within-2%" if abs(s2 - tot) <= 0.02 * tot else "kernel:gaussian-filtered-mass-off")
    ctx.count("kernel-origin:" + ("given" if cfg["origin"] is not None else "derived") + ",shape:" + ("given" if cfg["shape"] is not None else "derived"))
    ctx.count("kernel-rate:" + ("none" if cfg["rate"] is None else "scalar" if np.ndim(cfg["rate"]) == 0 else "per-axis")
              + ("/dyadic" if _is_dyadic(rvec) else "/other"))
    ctx.count("kernel-api:" + cfg["api"])
    ctx.count("kernel-outside:" + (">0" if model["outside"] else "0"))
    if len(sub) >= 2:
        ctx.distinct(("kernel", fam, zlib.crc32(json.dumps(mol["coords"]).encode()), json.dumps(cfg, sort_keys=True)))
    return len(ctx.spec_failures) + len(ctx.disagreements) == n_before


def check_sphere_predicate(ctx, rng):
    """the footprint array of the code (float norm <= 1) against the integer predicate, for radii 1..13 per axis"""
    for _ in range(ctx.budget(20, 200)):
        nd = 3 if rng.random() < 0.8 else 2
        k = [int(x) for x in rng.integers(0 if rng.random() < 0.1 else 1, 14, size=nd)]
        ka = np.array(k)
        sl = tuple(slice(-x, x + 1) for x in ka)
        with np.errstate(all="ignore"):
            dist = np.linalg.norm(np.divide(np.mgrid[sl], ka.reshape((-1,) + (1,) * nd)), axis=0)
        fp = (dist <= 1)
        ds = np.argwhere(np.ones(fp.shape, dtype=bool)) - ka
        m = ctx.driver.call("c10.sphere", k=k, ds=ds.tolist())
        ctx.agree("vdw footprint (norm(mgrid / k) <= 1) == inSphere", {"k": k, "kernel": True}, fp.reshape(-1).tolist(), m)
        ctx.count("kernel:footprint")


def file_filter_case(ctx, rng):
    """Density.from_structure(path, filter_by_elements, filter_by_residues, chain, weight_type): the records selected
    by the file filters (element set, residue set, ATOM records; an EMPTY set filters nothing) and nothing else"""
    from tme import Density, Structure
    from pv import env
    n = int(rng.integers(2, 12))
    nd = 3
    resn = ["GLY", "SER", "ALA", "HOH", "ZN"]
    c = np.round(rng.integers(0, 80, size=(n, nd)) / 8.0 + rng.integers(-20, 20, size=nd), 3)
    elems = [str(rng.choice(K_COMMON + ["ZN"])) for _ in range(n)]
    chains = [str(rng.choice(["A", "B"])) for _ in range(n)]
    res = [str(rng.choice(resn)) for _ in range(n)]
    rec = ["HETATM" if (r in ("HOH", "ZN") and rng.random() < 0.8) else "ATOM" for r in res]
    ext = "cif" if rng.random() < 0.4 else "pdb"
    path = os.path.join(env.scratch(), "c10k_%08x.%s" % (int(rng.integers(1 << 32)), ext))
    st = make_structure({"coords": c.tolist(), "dtype": "float64", "elems": elems, "chains": chains})
    st.residue_name = np.array(res)
    st.record_type = np.array(rec)
    try:
        st.to_file(path)
        parsed = Structure.from_file(path, keep_non_atom_records=True)
    except Exception:  # noqa
        ctx.count("file-filter:skipped-io")
        return
    if parsed.atom_coordinate.shape[0] == 0 or str(parsed.atom_coordinate.dtype) not in ("float32", "float64"):
        ctx.count("file-filter:skipped-io")
        return
    pc = parsed.atom_coordinate.astype(np.float64)
    recs = [{"xyz": [_ratio(x) for x in row], "elem": str(e), "chain": str(ch), "res": str(r), "rec": str(t)}
            for row, e, ch, r, t in zip(pc, parsed.element_symbol, parsed.chain_identifier, parsed.residue_name, parsed.record_type)]
    pe, pr = sorted({x["elem"] for x in recs}), sorted({x["res"] for x in recs})

    def pick(present, decoys):
        m = rng.random()
        if m < 0.3:
            return None
        if m < 0.4:
            return []
        k = int(rng.integers(1, len(present) + 1))
        return sorted({present[int(i)] for i in rng.choice(len(present), size=k, replace=False)} | ({str(rng.choice(decoys))} if rng.random() < 0.3 else set()))
    fe, fr = pick(pe, ["CA", "c", "SE", "Zn"]), pick(pr, ["GLYX", "gly", "SE", "HO"])
    wt = str(rng.choice(["atomic_number", "van_der_waals_radius", "atomic_weight"]))
    rate = float(rng.choice([1.0, 2.0, 0.5, 1.5]))
    lo = pc[:, ::-1].min(axis=0)
    origin = (np.floor(lo) - rng.integers(0, 2, size=nd)).tolist() if rng.random() < 0.7 else None
    shape = [int(x) for x in rng.integers(3, 14, size=nd)] if (origin is not None and rng.random() < 0.7) else None
    chain = "A" if rng.random() < 0.3 else None
    kw = {"weight_type": wt, "sampling_rate": rate}
    if origin is not None:
        kw["origin"] = tuple(origin)
    if shape is not None:
        kw["shape"] = tuple(shape)
    if chain is not None:
        kw["chain"] = chain
    inp = {"file_records": recs, "filter_by_elements": fe, "filter_by_residues": fr, "kw": {k: (list(v) if isinstance(v, tuple) else v) for k, v in kw.items()},
           "file_ext": ext, "kernel": True}
    # near ties of the parsed (3-decimal) coordinates: counted, not compared
    o_used = np.array(origin) if origin is not None else None
    model = ctx.driver.call("c10.fromFileK", nd=nd, recs=recs, elems=fe, residues=fr, shape=shape, rate=[_ratio(rate)],
                            origin=None if origin is None else [_ratio(x) for x in origin], chain=chain, wt=wt)
    try:
        dd = Density.from_structure(path, filter_by_elements=None if fe is None else set(fe),
                                    filter_by_residues=None if fr is None else set(fr), **kw)
        real = {"grid": np.asarray(dd.data), "origin": np.asarray(dd.origin, dtype=np.float64).reshape(-1),
                "outside": int(dd.metadata.get("nAtoms_outOfBound", -1))}
    except Exception as e:  # noqa
        real = {"raised": type(e).__name__}
    ctx.count("file-filter:" + ext + ":" + ("elements" if fe else "-") + "+" + ("residues" if fr else "-") + (":empty-set" if fe == [] or fr == [] else ""))
    if isinstance(model, str):
        ctx.agree("from_structure(path, filters):outcome", inp, "raised" if "raised" in real else "returned", "raised")
        ctx.count("file-filter-outcome:" + model)
        return
    if "raised" in real:
        ctx.agree("from_structure(path, filters):outcome", inp, "raised:" + real["raised"], "returned")
        return
    sel = [x for x in recs if (not fe or x["elem"] in fe) and (not fr or x["res"] in fr) and x["rec"] == "ATOM" and (chain is None or x["chain"] == chain)]
    cz = np.array([[float(Fraction(a, b)) for a, b in x["xyz"]] for x in sel], dtype=np.float64).reshape(len(sel), nd)[:, ::-1]
    oo = o_used if o_used is not None else cz.min(axis=0)
    nh, q = near_half(cz, oo, np.array([rate] * nd), "float64")
    if bool(np.any(nh)) and not (_is_dyadic(cz) and _is_dyadic(oo) and _is_dyadic(q)):
        ctx.count("file-filter:skipped-near-tie-inexact")
        return
    G = real["grid"]
    shape_m = [int(x) for x in model["shape"]]
    ctx.agree("from_structure(path, filters):shape", inp, list(G.shape), shape_m)
    ctx.agree("from_structure(path, filters):outside", inp, real["outside"], model["outside"])
    if list(G.shape) != shape_m:
        return
    unit = 1e-9 if wt == "atomic_weight" else 1.0
    M = dense_from_sparse(model["grid"], shape_m, unit)
    ctx.agree("from_structure(path, filters):grid of exactly the selected records", inp,
              "close" if grids_close(G.astype(np.float64), M) else {"real_total": float(G.sum()), "model_total": float(M.sum())}, "close")
    # the clause, independently of the model: total == summed weight of the selected records inside
    if wt != "van_der_waals_radius":
        w, u = weights_for([x["elem"] for x in sel], wt)
        pos = np.rint((cz - oo) / rate).astype(int) if len(sel) else np.zeros((0, nd), dtype=int)
        if origin is not None and shape is None and len(sel):
            pos = pos - pos.min(axis=0)
        inside = [bool(np.all(p >= 0) and np.all(p < np.array(G.shape))) for p in pos]
        exp = sum(wi for wi, f in zip(w, inside) if f) * u
        good = abs(float(G.astype(np.float64).sum()) - exp) <= 1e-4 * max(1.0, abs(exp))
        ctx.spec("file filters: the grid total is the summed weight of exactly the selected records inside the grid", inp, good,
                 {"sum": float(G.sum()), "expected": exp, "selected": len(sel)}, key="from_structure:file-filters-total")
    if len(sel) >= 2:
        ctx.distinct(("file-filter", zlib.crc32(json.dumps(recs).encode()), json.dumps([fe, fr, inp["kw"]], sort_keys=True)))


def run_kernels(ctx, rng):
    check_vdwr_table(ctx)
    check_sphere_predicate(ctx, rng)
    for i in range(ctx.budget(500, 5000)):
        mol, cfg, rvec = gen_kernel_case(rng)
        check_kernel_case(ctx, mol, cfg, rvec)
    # unknown weight type: NotImplementedError before anything else (even with a malformed rate)
    mol, cfg, rvec = gen_kernel_case(rng, wt="van_der_waals_radius")
    for wt in ("vdw", "Gaussian", ""):
        c2 = dict(cfg, wt=wt, rate=[1.0, 2.0])
        real = call_kernel(make_structure(mol), c2)
        ctx.agree("to_volume:unknown weight type", {"mol": mol, "cfg": c2, "kernel": True}, real.get("raised"), "NotImplementedError")
        ctx.count("kernel:unknown-weight-type")
    for i in range(ctx.budget(100, 1000)):
        file_filter_case(ctx, rng)


def run(ctx):
    rng = ctx.rng("main")
    if not check_table(ctx):
        ctx.note("element table differs from the model constants")
    check_rint(ctx, rng)
    run_corpus(ctx)
    keys = sorted(_TABLE["t"])

    check_symbol_weights(ctx, rng)

    # ---- main stream: a structure, several configurations on the same object (metadata must not go stale); between two
    #      configurations the object may be edited (the next conversion must see the edit) or another structure of the same
    #      size may be converted with the same arguments (nothing may be remembered from it)
    n_mol = ctx.budget(800, 6000)
    for i in range(n_mol):
        nd = 2 if rng.random() < 0.05 else 3
        mol0 = gen_mol(rng, sizes(ctx, rng), nd=nd, table_keys=keys)
        st = make_structure(mol0)
        mol, hist, edited = mol0, [], False
        for j in range(int(rng.integers(2, 6))):
            if j > 0 and rng.random() < 0.25:
                ed = gen_edit(rng, mol)
                mol = apply_edit(st, mol, ed)
                hist.append(ed)
                edited = True
            cfg = gen_cfg(rng, mol)
            if j > 0 and rng.random() < 0.12:
                cfg = dict(last)          # the very same request again (possibly after an edit of the object)
                ctx.count("same-request-again")
            last = cfg
            if rng.random() < 0.12:
                other = {"mol": gen_other(rng, mol), "cfg": cfg}
                call_real(make_structure(other["mol"]), cfg)
                hist.append({"other": other})
            check_case(ctx, mol, cfg, st=st, history=list(hist), mol0=mol0 if edited else None)
            hist.append(cfg)
            if j == 0 and i % 3 == 0:
                chain_diff(ctx, mol, gen_cfg(rng, mol, force={"chain": None}))
        if i % 4 == 0 and nd == 3 and mol["dtype"] not in ("int64", "int32"):
            element_filter(ctx, rng, mol, gen_cfg(rng, mol, force={"chain": None}))
        if i < 4:
            ctx.sample({"coords[:3]": mol["coords"][:3], "n": len(mol["coords"]), "elems[:3]": mol["elems"][:3], "cfg": cfg})

    # ---- atoms on the faces of the box
    for i in range(ctx.budget(250, 3000)):
        mol, cfg = gen_boundary(rng)
        check_case(ctx, mol, cfg)
        if i % 5 == 0 and cfg["origin"] is not None:
            chain_diff(ctx, mol, dict(cfg, chain=None))

    # ---- more than 10 000 atoms
    run_large(ctx, rng, keys)

    # ---- malformed stream: wrong number of rates, chains that do not exist (both must raise, as the model says)
    for i in range(ctx.budget(12, 60)):
        mol = gen_mol(rng, int(rng.integers(1, 6)), table_keys=keys)
        cfg = gen_cfg(rng, mol)
        if i % 2:
            cfg["rate"], cfg["rate_kind"] = [1.0, 2.0] if i % 4 == 1 else [1.0, 2.0, 0.5, 1.0], "tuple"
        else:
            cfg["chain"] = str(rng.choice(["Z", "zz,Q", "", "b"]))
        check_case(ctx, mol, cfg)
        ctx.count("malformed")

    # ---- near-.5 stream
    for i in range(ctx.budget(300, 5000)):
        mol, cfg = gen_neartie(rng, int(rng.integers(1, 7)))
        check_case(ctx, mol, cfg)

    # ---- bundled entries
    from tme import Structure
    from pv import env
    for name in ("5khe.cif", "1pdj.pdb"):
        p = os.path.join(env.REPO, "tests", "data", "Structures", name)
        if not os.path.exists(p) or os.path.getsize(p) == 0:
            ctx.count("bundled:missing")
            continue
        try:
            s = Structure.from_file(p)
        except Exception:  # noqa
            ctx.count("bundled:unreadable")
            continue
        if not ctx.thorough:
            s = s[np.arange(0, s.atom_coordinate.shape[0], 4)]
        mol = {"coords": s.atom_coordinate.astype(np.float64).tolist(), "dtype": str(s.atom_coordinate.dtype),
               "elems": [str(x) for x in s.element_symbol], "chains": [str(x) for x in s.chain_identifier], "kind": "bundled:" + name}
        if mol["dtype"] not in ("float32", "float64"):
            continue
        for j in range(ctx.budget(2, 6)):
            cfg = gen_cfg(rng, mol)
            if cfg["shape"] is not None:
                cfg["shape"] = [min(40, x) for x in cfg["shape"]]
            check_case(ctx, mol, cfg)

    # ---- the other weight types (spheres, supports, the deposit before the Gaussian filter) and the file filters
    run_kernels(ctx, ctx.rng("kernels"))


def search(ctx):
    """Correspondence / an obligation broke without a failing input: sweep single atoms over sub-voxel offsets on every
    axis (all four origin/shape modes, several rates), pairs for collisions and x/z asymmetry, then a wider random stream."""
    rng = ctx.rng("search")
    fails = lambda: sum(1 for f in ctx.spec_failures if f["key"] != KEY_TIE)
    base = fails()
    for d in ctx.disagreements[:10]:
        inp = d.get("input") or {}
        if isinstance(inp, dict) and "mol" in inp and "cfg" in inp:
            check_case(ctx, inp["mol"], inp["cfg"], history=inp.get("history"), record=False, mol0=inp.get("mol0"))
    if fails() > base:
        return
    check_symbol_weights(ctx, rng)
    if fails() > base:
        return
    for rate in (1.0, 2.0, 0.5, 1.5):
        for axis in range(3):
            for k in range(-20, 21):
                c = [3.0, 5.0, 7.0]
                c[axis] += k / 8.0
                mol = {"coords": [c, [9.0, 2.0, 4.0]], "dtype": "float64", "elems": ["C", "N"], "chains": ["A", "B"], "kind": "sweep"}
                for origin, shape in ((None, None), ([0.0, 0.0, 0.0], None), ([1.0, 1.0, 1.0], [12, 12, 12]), (None, [3, 3, 3])):
                    for wt in ("atomic_weight", "atomic_number"):
                        cfg = {"shape": shape, "rate": rate, "origin": origin, "chain": None, "wt": wt, "api": "to_volume",
                               "rate_kind": "scalar", "origin_kind": "tuple", "shape_kind": "tuple"}
                        check_case(ctx, mol, cfg, record=False)
        if fails() > base:
            return
    keys = sorted(_TABLE.get("t", {}))
    for i in range(ctx.budget(300, 2000)):
        mol0 = gen_mol(rng, int(rng.choice([2, 3, 5, 20, 80])), table_keys=keys)
        st = make_structure(mol0)
        mol, hist, edited = mol0, [], False
        for j in range(4):
            if j > 0 and rng.random() < 0.3:
                ed = gen_edit(rng, mol)
                mol = apply_edit(st, mol, ed)
                hist.append(ed)
                edited = True
            cfg = gen_cfg(rng, mol)
            check_case(ctx, mol, cfg, st=st, history=list(hist), record=False, mol0=mol0 if edited else None)
            hist.append(cfg)
        if i % 7 == 0:
            bm, bc = gen_boundary(rng)
            check_case(ctx, bm, bc, record=False)
        if i % 5 == 0:
            chain_diff(ctx, mol, gen_cfg(rng, mol, force={"chain": None}))
        if fails() > base and i > 20:
            return


def replay(ctx, rec):
    check_table(ctx)
    inp = rec.get("input") or {}
    if rec.get("key") == "to_volume:weight-of-symbol":
        check_symbol_weights(ctx, ctx.rng("replay"))
    elif "elements_kept" in inp:
        element_filter(ctx, ctx.rng("replay"), inp["mol"], inp["cfg"], E=set(inp["elements_kept"]), decoy=inp.get("decoy"),
                       filters=inp.get("filters_passed"), ext=inp.get("file_ext"), fchain=inp.get("file_chain"),
                       same_path=bool(inp.get("same_path")), previous=inp.get("previous_at_same_path"))
    elif inp.get("kernel"):
        check_vdwr_table(ctx)
        if "mol" in inp and "cfg" in inp:
            check_kernel_case(ctx, inp["mol"], inp["cfg"])
        elif "k" in inp:
            check_sphere_predicate(ctx, ctx.rng("replay"))
        else:
            for _ in range(200):
                file_filter_case(ctx, ctx.rng("replay"))
    elif "mol" in inp and "cfg" in inp:
        check_case(ctx, inp["mol"], inp["cfg"], history=inp.get("history"), mol0=inp.get("mol0"))
        if "chains_kept" in inp:
            chain_diff(ctx, inp["mol"], inp["cfg"], S=inp["chains_kept"])
    else:
        run(ctx)
