"""C10 — atoms are deposited on the grid at the right voxel and no mass is lost.

Leg B: the real `Structure.to_volume` / `Structure._coordinate_to_position` / `Density.from_structure`
of the repository vs the Lean model (Model/C10.lean, exact rationals), plus the clauses of the property
evaluated on the *real* outputs (Lean spec function `idxOf`/`specVoxel`/`specTotal`/`specOutside` fed with
the origin / sampling rate / shape the real code returned)."""
import glob
import json
import os
import zlib
from fractions import Fraction

import numpy as np

ID = "C10"
RULE = ("random structures (dyadic-grid, half-grid, PDB-like 3-decimals in float64 and float32, integer, free float, "
        "near-cubic and constructed near-.5 coordinates; known / rare / unknown element symbols; 1-4 chains; 3-D and a few 2-D) "
        "x configurations (sampling rate none/scalar/per-axis, origin given/derived, shape given/derived incl. truncating, "
        "chain subsets, atomic_weight/atomic_number, Structure.to_volume or Density.from_structure), several configurations "
        "run on the same Structure object in sequence; element filter through PDB files; bundled entries. "
        "distinct = distinct (coordinates-hash, configuration) pairs; cases with < 2 atoms in the subset, or all atoms in "
        "one voxel with none outside, are trivial and not counted")
ASSUMPTIONS = [
    "the weight of an element symbol in the spec is what the repository's Elements()[symbol] returns (reflection); the model's "
    "constant table is tied to Elements._elements by an obligation on every run",
    "every float32/float64 coordinate, origin and rate is passed to the model as its exact rational value; the real code "
    "rounds (c - o) / r in floating point, so atoms whose exact quotient is within ~1e-9 (float64) / ~1e-5 (float32) of a "
    "half-integer without the computation being provably exact are compared modulo the two neighbouring voxels",
    "the grid is float32: voxel values are compared with |err| <= 1e-3 + 1e-4*value, totals with 1e-4 relative",
    "atoms whose quotient is exactly a half-integer on dyadic inputs are compared strictly (half-to-even)",
]
TRUSTED = ["C10: numpy rint / add.at / float32 accumulation are exercised, not modelled beyond exact rationals"]

KEY_TIE = "to_volume:derived-origin:exact-tie-odd-shift"

COMMON = ["C", "N", "O", "H", "S", "P"]
UNKNOWN = ["X", "He", "c", "Zz", "D", "", "Xx"]
RATES = [0.5, 1.0, 2.0, 0.25, 1.5, 3.0, 2.2, 1.35, 0.75, 4.0, 1.0, 1.0]


# ----------------------------------------------------------------------------------------------------------------
# helpers
# ----------------------------------------------------------------------------------------------------------------
def _ratio(x):
    n, d = Fraction(float(x)).as_integer_ratio()
    return [n, d]


def _coords_array(mol):
    dt = {"float64": np.float64, "float32": np.float32, "int64": np.int64}[mol["dtype"]]
    return np.array(mol["coords"], dtype=np.float64).astype(dt).reshape(len(mol["coords"]), -1)


def make_structure(mol):
    from tme import Structure
    n = len(mol["coords"])
    s = Structure(
        record_type=["ATOM"] * n, atom_serial_number=list(range(1, n + 1)),
        atom_name=[(e if e else "X")[:4] for e in mol["elems"]],
        atom_coordinate=[[0.0] * len(mol["coords"][0])] * n, alternate_location_indicator=["."] * n,
        residue_name=["GLY"] * n, chain_identifier=list(mol["chains"]), residue_sequence_number=list(range(1, n + 1)),
        code_for_residue_insertion=["?"] * n, occupancy=[1.0] * n, temperature_factor=[0.0] * n,
        segment_identifier=["1"] * n, element_symbol=list(mol["elems"]), charge=["?"] * n, metadata={})
    s.atom_coordinate = _coords_array(mol)
    s.element_symbol = np.array(list(mol["elems"]), dtype="<U4")
    s.chain_identifier = np.array(list(mol["chains"]), dtype="<U4")
    return s


def _as_param(v, kind):
    if v is None:
        return None
    if kind == "scalar":
        return v
    if kind == "int":
        return int(v)
    if kind == "tuple":
        return tuple(v)
    if kind == "list":
        return list(v)
    return np.array(v)


def call_real(st, cfg):
    """Run the real code.  Returns dict(grid, origin, rate, outside) or dict(raised=...)."""
    from tme import Density
    kw = {}
    if cfg["shape"] is not None:
        kw["shape"] = _as_param(cfg["shape"], cfg.get("shape_kind", "tuple"))
    if cfg["origin"] is not None:
        kw["origin"] = _as_param(cfg["origin"], cfg.get("origin_kind", "tuple"))
    if cfg["rate"] is not None:
        kw["sampling_rate"] = _as_param(cfg["rate"], cfg.get("rate_kind", "tuple"))
    if cfg["chain"] is not None:
        kw["chain"] = cfg["chain"]
    kw["weight_type"] = cfg["wt"]
    try:
        if cfg["api"] == "from_structure":
            d = Density.from_structure(st, **kw)
            grid, origin, rate, meta = d.data, d.origin, d.sampling_rate, d.metadata
        else:
            grid, origin, rate = st.to_volume(**kw)
            meta = st.metadata
        return {"grid": np.asarray(grid), "origin": np.asarray(origin, dtype=np.float64).reshape(-1),
                "rate": np.asarray(rate, dtype=np.float64).reshape(-1), "outside": int(meta.get("nAtoms_outOfBound", -1))}
    except Exception as e:  # noqa
        return {"raised": type(e).__name__, "msg": str(e)[:200]}


def resolved_rate(cfg, nd):
    r = cfg["rate"]
    if r is None:
        return [1.0] * nd
    if np.ndim(r) == 0:
        return [float(r)] * nd
    r = [float(x) for x in r]
    if len(r) == 1:
        return r * nd
    return r if len(r) == nd else None


def subset_indices(mol, chain):
    if chain is None:
        return list(range(len(mol["chains"])))
    want = chain.split(",")
    return [i for i, c in enumerate(mol["chains"]) if c in want]


def table_from_repo():
    from tme.structure import Elements
    e = Elements()
    return {k: (int(v.atomic_number), float(v.atomic_weight)) for k, v in e._elements.items()}, e


_TABLE = {}


def weights_for(elems, wt):
    """independent of the model: the weight of a symbol is whatever the repository's `Elements()[symbol]` says
    (reflection through the real accessor); integers in units of 1e-9 (atomic_weight) or 1 (atomic_number)"""
    if "e" not in _TABLE:
        _TABLE["t"], _TABLE["e"] = table_from_repo()
    e = _TABLE["e"]
    if wt == "atomic_number":
        return [int(e[str(x)].atomic_number) for x in elems], 1.0
    return [int(round(float(e[str(x)].atomic_weight) * 1e9)) for x in elems], 1e-9


def _is_dyadic(a):
    a = np.asarray(a, dtype=np.float64)
    return bool(np.all(np.abs(a) < 2.0 ** 30) and np.all(a * 65536.0 == np.round(a * 65536.0)))


def near_half(coords_zyx, origin, rate, dtype):
    """boolean (n, nd): float evaluation of (c - o)/r is close to a half-integer (candidate for ambiguity)."""
    c = np.asarray(coords_zyx, dtype=np.float64)
    o = np.asarray(origin, dtype=np.float64)
    r = np.asarray(rate, dtype=np.float64)
    q = (c - o) / r
    eps = 1.2e-7 if dtype == "float32" else 2.3e-16
    tol = 8 * eps * (np.abs(c) + np.abs(o)) / r + 1e-9 * np.maximum(1.0, np.abs(q))
    d = np.abs(q - np.floor(q) - 0.5)
    return d <= tol, q


def dense_from_sparse(sparse, shape, unit):
    g = np.zeros(int(np.prod(shape)) if len(shape) else 1, dtype=np.float64)
    for k, v in sparse:
        g[k] = v * unit
    return g.reshape(shape)


def grids_close(a, b):
    return a.shape == b.shape and bool(np.all(np.abs(a - b) <= 1e-3 + 1e-4 * np.maximum(np.abs(a), np.abs(b))))


# ----------------------------------------------------------------------------------------------------------------
# the property's clauses on the real outputs
# ----------------------------------------------------------------------------------------------------------------
def spec_eval(ctx, mol, cfg, real, relaxed_ties):
    """Evaluate voxel / total / outside-count w.r.t. the RETURNED origin, rate and grid shape.
    Returns list of (clause, ok, detail).  `relaxed_ties`: exact half-integer quotients accept both neighbours."""
    nd = len(mol["coords"][0])
    sub = subset_indices(mol, cfg["chain"])
    G = real["grid"].astype(np.float64)
    shape = list(G.shape)
    o_ret, r_ret = real["origin"], real["rate"]
    if len(shape) != nd or o_ret.size != nd or r_ret.size != nd or np.any(r_ret <= 0) or not np.all(np.isfinite(o_ret)):
        return [("voxel", False, {"why": "returned origin/rate/shape malformed", "shape": shape,
                                  "origin": o_ret.tolist(), "rate": r_ret.tolist()})], \
               {"ambiguous": 0, "ties": 0, "inside": 0, "distinct_voxels": 0, "n": len(sub)}
    coords = _coords_array(mol)[sub]
    elems = [mol["elems"][i] for i in sub]
    w_int, unit = weights_for(elems, cfg["wt"])
    atoms = [{"xyz": [_ratio(x) for x in coords[i]], "w": int(w_int[i])} for i in range(len(sub))]
    sp = ctx.driver.call("c10.spec", nd=nd, atoms=atoms, origin=[_ratio(x) for x in o_ret],
                         rate=[_ratio(x) for x in r_ret], shape=shape)
    idx = np.array(sp["idx"], dtype=np.int64).reshape(len(sub), nd)
    ties = np.array(sp["ties"], dtype=bool).reshape(len(sub), nd)
    czyx = coords[:, ::-1].astype(np.float64)
    near, qf = near_half(czyx, o_ret, r_ret, mol["dtype"])
    # is the real computation provably exact at exact ties?
    o0 = np.asarray(cfg["origin"], dtype=np.float64) if cfg["origin"] is not None else o_ret
    strict_ok = mol["dtype"] != "float32" and _is_dyadic(czyx) and _is_dyadic(o0)
    if strict_ok:
        for k in range(nd):
            sh = (Fraction(float(o_ret[k])) - Fraction(float(o0[k]))) / Fraction(float(r_ret[k]))
            if sh.denominator != 1:
                strict_ok = False
    amb = near & ~(ties & strict_ok) if not relaxed_ties else (near | ties)
    amb_atom = amb.any(axis=1)
    w = np.array(w_int, dtype=np.float64) * unit
    shp = np.array(shape)
    inside = np.all((idx >= 0) & (idx < shp), axis=1)
    E = np.zeros(shape, dtype=np.float64)
    strict = ~amb_atom
    sel = strict & inside
    if sel.any():
        np.add.at(E, tuple(idx[sel].T), w[sel])
    # candidate voxels of ambiguous atoms
    S = np.zeros(shape, dtype=bool)
    amb_lo, amb_hi = 0.0, 0.0      # mass of ambiguous atoms that must / may be in the grid
    out_lo = int(np.sum(strict & ~inside))
    out_hi = out_lo
    for a in np.nonzero(amb_atom)[0]:
        cands = [[]]
        for k in range(nd):
            opts = [int(idx[a, k])]
            if amb[a, k]:
                f = int(np.floor(qf[a, k]))
                opts = sorted({f, f + 1, int(idx[a, k])})
            cands = [c + [o] for c in cands for o in opts]
        ins = [all(0 <= c[k] < shape[k] for k in range(nd)) for c in cands]
        for c, i_ in zip(cands, ins):
            if i_:
                S[tuple(c)] = True
        if all(ins):
            amb_lo += w[a]
        if any(ins):
            amb_hi += w[a]
        if not all(ins):
            out_hi += 1
        if not any(ins):
            out_lo += 1
    res = []
    tol = lambda v: 1e-3 + 1e-4 * abs(v)
    off = ~S
    bad = np.abs(G - E)[off] > (1e-3 + 1e-4 * np.maximum(np.abs(G), np.abs(E))[off])
    ok_vox = not bool(bad.any())
    detail = None
    if not ok_vox:
        where = np.argwhere((np.abs(G - E) > (1e-3 + 1e-4 * np.maximum(np.abs(G), np.abs(E)))) & off)[:4]
        detail = {"returned_origin": o_ret.tolist(), "returned_rate": r_ret.tolist(), "grid_shape": shape,
                  "voxels": [{"voxel": v.tolist(), "grid": float(G[tuple(v)]), "expected": float(E[tuple(v)])} for v in where]}
    sS = float(G[S].sum()) if S.any() else 0.0
    eS = float(E[S].sum()) if S.any() else 0.0
    if ok_vox and not (eS + amb_lo - tol(eS + amb_lo) <= sS <= eS + amb_hi + tol(eS + amb_hi)):
        ok_vox = False
        detail = {"why": "mass on the candidate voxels of near-tie atoms", "got": sS, "lo": eS + amb_lo, "hi": eS + amb_hi}
    res.append(("voxel", ok_vox, detail))
    tot = float(G.sum())
    e_tot = float(E.sum())
    lo, hi = e_tot + amb_lo, e_tot + amb_hi
    res.append(("total", lo - 1e-3 - 1e-4 * abs(lo) <= tot <= hi + 1e-3 + 1e-4 * abs(hi),
                {"grid_total": tot, "inside_weight": [lo, hi]}))
    res.append(("outside-count", out_lo <= real["outside"] <= out_hi,
                {"reported": real["outside"], "expected": [out_lo, out_hi]}))
    # the Lean spec's own totals agree with the above when nothing is ambiguous (sanity of the harness arithmetic)
    if not amb_atom.any():
        if sp["outside"] != out_lo or abs(sp["total"] * unit - e_tot) > 1e-6 * max(1.0, abs(e_tot)):
            res.append(("harness-arithmetic", False, {"lean": [sp["outside"], sp["total"]], "py": [out_lo, e_tot]}))
        # literal per-voxel spec function on small cases
        if len(sub) <= 24:
            rng = np.random.default_rng(len(sub) * 7919 + int(abs(tot)) % 1000)
            vox = {tuple(v) for v in idx[inside].tolist()}
            for _ in range(6):
                vox.add(tuple(int(rng.integers(0, max(1, s))) for s in shape))
            vox = [list(v) for v in vox if all(0 <= v[k] < shape[k] for k in range(nd))]
            if vox:
                vals = ctx.driver.call("c10.specVoxels", nd=nd, atoms=atoms, origin=[_ratio(x) for x in o_ret],
                                       rate=[_ratio(x) for x in r_ret], voxels=vox)
                for v, val in zip(vox, vals):
                    g = float(G[tuple(v)])
                    if abs(g - val * unit) > tol(g):
                        res.append(("voxel", False, {"voxel": v, "grid": g, "specVoxel": val * unit,
                                                     "returned_origin": o_ret.tolist(), "returned_rate": r_ret.tolist()}))
                        break
    return res, {"ambiguous": int(amb_atom.sum()), "ties": int(ties.any(axis=1).sum()), "inside": int(inside.sum()),
                 "distinct_voxels": len({tuple(v) for v in idx[inside].tolist()}), "n": len(sub)}


def check_case(ctx, mol, cfg, st=None, history=None, record=True):
    """One (structure, configuration): correspondence with the model + clauses of the property on the real outputs.
    Returns True iff nothing failed."""
    d = ctx.driver
    nd = len(mol["coords"][0])
    inp = {"mol": mol, "cfg": cfg, "history": history or []}
    fresh = st is None
    if st is None:
        st = make_structure(mol)
        for h in history or []:
            call_real(st, h)
    n_before = len(ctx.spec_failures) + len(ctx.disagreements)
    sub = subset_indices(mol, cfg["chain"])
    rr = resolved_rate(cfg, nd)

    # ---- model
    atoms = [{"xyz": [_ratio(x) for x in row], "elem": e, "chain": c}
             for row, e, c in zip(_coords_array(mol), mol["elems"], mol["chains"])]
    margs = dict(nd=nd, atoms=atoms, shape=cfg["shape"],
                 rate=None if cfg["rate"] is None else [_ratio(x) for x in np.atleast_1d(cfg["rate"])],
                 origin=None if cfg["origin"] is None else [_ratio(x) for x in cfg["origin"]],
                 chain=cfg["chain"], wt=cfg["wt"])
    model = d.call("c10.toVolume", **margs)

    # ---- real
    real = call_real(st, cfg)
    if isinstance(model, str):
        ctx.agree("to_volume:outcome", inp, "raised" if "raised" in real else "returned", "raised")
        ctx.count("outcome:" + model)
        if "raised" not in real and sub and rr is not None:
            pass
        return len(ctx.spec_failures) + len(ctx.disagreements) == n_before
    if "raised" in real:
        ctx.agree("to_volume:outcome", inp, "raised:" + real["raised"], "returned")
        ctx.spec("to_volume returns for a non-empty subset and valid arguments", inp, False, real, key="to_volume:raised")
        return False

    G = real["grid"]
    # ---- requested parameters come back
    ok = True
    if cfg["shape"] is not None:
        ok &= ctx.spec("grid has the requested shape", inp, list(G.shape) == list(cfg["shape"]),
                       {"got": list(G.shape)}, key="to_volume:shape")
    ok &= ctx.spec("returned sampling rate is the requested one (scalar repeated per axis)", inp,
                   real["rate"].tolist() == rr, {"got": real["rate"].tolist(), "want": rr}, key="to_volume:rate")
    if cfg["origin"] is not None:
        if cfg["shape"] is not None:
            good = real["origin"].tolist() == [float(x) for x in cfg["origin"]]
        else:
            k = (real["origin"] - np.asarray(cfg["origin"], dtype=np.float64)) / np.asarray(rr)
            good = bool(np.all(np.abs(k - np.round(k)) <= 1e-6 * np.maximum(1.0, np.abs(k))))
        ok &= ctx.spec("returned origin is the requested one (moved by whole voxels when the shape is derived)", inp,
                       good, {"got": real["origin"].tolist(), "want": cfg["origin"]}, key="to_volume:origin")
    if G.dtype != np.float32:
        ctx.note(f"grid dtype {G.dtype}")

    # ---- clauses w.r.t. the returned frame
    res, info = spec_eval(ctx, mol, cfg, real, relaxed_ties=False)
    failing = [r for r in res if not r[1]]
    key_override = None
    if failing and cfg["origin"] is not None and cfg["shape"] is None:
        res2, _ = spec_eval(ctx, mol, cfg, real, relaxed_ties=True)
        if all(r[1] for r in res2):
            key_override = KEY_TIE
    names = {"voxel": "each atom inside adds its weight at round((zyx - returned origin)/returned rate) and nowhere else",
             "total": "grid total = summed weight of the atoms inside",
             "outside-count": "reported number of atoms outside is exact",
             "harness-arithmetic": "harness arithmetic == Lean spec totals"}
    if key_override == KEY_TIE:
        _TABLE["tie_cases"] = _TABLE.get("tie_cases", 0) + 1
        ctx.count("known-tie-class-cases")
    for clause, good, detail in res:
        if key_override == KEY_TIE and not good and _TABLE["tie_cases"] > 12:
            ctx.evaluations += 1          # counted, not stored again (the list of failures is capped)
            continue
        ok &= ctx.spec(names[clause], inp, good, detail, key=key_override or ("to_volume:" + clause))
    if cfg["shape"] is None:
        w_int, unit = weights_for([mol["elems"][i] for i in sub], cfg["wt"])
        allw = float(sum(w_int)) * unit
        tot = float(G.astype(np.float64).sum())
        ok &= ctx.spec("derived shape holds every atom (none outside, no mass lost)", inp,
                       real["outside"] == 0 and abs(tot - allw) <= 1e-3 + 1e-4 * abs(allw),
                       {"outside": real["outside"], "total": tot, "all": allw}, key="to_volume:derived-all-inside")

    # ---- correspondence with the model
    m_shape = model["shape"]
    m_origin = [n / dd for n, dd in model["origin"]]
    ctx.agree("to_volume:rate", inp, real["rate"].tolist(), [n / dd for n, dd in model["rate"]])
    # near-tie atoms w.r.t. the origin used inside rint
    czyx = _coords_array(mol)[sub][:, ::-1].astype(np.float64)
    o0 = np.asarray(cfg["origin"], dtype=np.float64) if cfg["origin"] is not None else czyx.min(axis=0)
    near0, _ = near_half(czyx, o0, np.asarray(rr), mol["dtype"])
    ties0 = np.array(model["ties"], dtype=bool).reshape(len(sub), nd)
    strict_ok = mol["dtype"] != "float32" and _is_dyadic(czyx) and _is_dyadic(o0)
    fuzzy = bool((near0 & ~(ties0 & strict_ok)).any())
    if fuzzy:
        ctx.count("agree-skipped:near-tie-inexact")
    else:
        ctx.agree("to_volume:shape", inp, list(G.shape), m_shape)
        ctx.agree("to_volume:origin", inp, real["origin"].tolist(), m_origin,
                  eq=lambda a, b: len(a) == len(b) and all(abs(x - y) <= 1e-9 * (1 + abs(x) + abs(y)) for x, y in zip(a, b)))
        ctx.agree("to_volume:outside", inp, real["outside"], model["outside"])
        unit = 1e-9 if cfg["wt"] == "atomic_weight" else 1.0
        if list(G.shape) == m_shape:
            Mg = dense_from_sparse(model["grid"], m_shape, unit)
            ctx.agree("to_volume:grid", inp, True, grids_close(G.astype(np.float64), Mg))
        # integer positions straight from _coordinate_to_position (fresh subset object, as to_volume does)
        try:
            tmp = st.subset_by_chain(chain=cfg["chain"])
            pos, atypes, shp, _, _ = tmp._coordinate_to_position(
                shape=None if cfg["shape"] is None else tuple(cfg["shape"]),
                sampling_rate=np.array(rr), origin=None if cfg["origin"] is None else tuple(cfg["origin"]))
            impl_pos = np.asarray(pos).astype(int).tolist()
            ctx.agree("_coordinate_to_position:positions", inp, impl_pos, model["positions"])
            ctx.agree("_coordinate_to_position:atoms", inp, [str(x) for x in atypes],
                      [mol["elems"][sub[i]] for i in _kept(model, len(sub))])
        except Exception as e:  # noqa
            ctx.agree("_coordinate_to_position:positions", inp, "raised:" + type(e).__name__, model["positions"])

    # ---- bookkeeping
    if record:
        ctx.count("nd=%d" % nd)
        ctx.count("kind:" + mol.get("kind", "?"))
        ctx.count("dtype:" + mol["dtype"])
        ctx.count("rate:" + ("none" if cfg["rate"] is None else "scalar" if np.ndim(cfg["rate"]) == 0 else "per-axis"))
        ctx.count("origin:" + ("given" if cfg["origin"] is not None else "derived"))
        ctx.count("shape:" + ("given" if cfg["shape"] is not None else "derived"))
        ctx.count("chain:" + ("all" if cfg["chain"] is None else "subset"))
        ctx.count("wt:" + cfg["wt"])
        ctx.count("api:" + cfg["api"])
        ctx.count("outside:" + (">0" if real["outside"] > 0 else "0"))
        ctx.count("exact-ties:" + (">0" if info["ties"] else "0"))
        ctx.count("near-tie-ambiguous:" + (">0" if info["ambiguous"] else "0"))
        ctx.count("collisions:" + ("yes" if info["distinct_voxels"] < info["inside"] else "no"))
        ctx.count("unknown-elements:" + ("yes" if any(mol["elems"][i] not in _TABLE["t"] for i in sub) else "no"))
        if any(s % 2 for s in model["shift"]):
            ctx.count("left-shift:odd")
        if info["n"] >= 2 and (info["distinct_voxels"] >= 2 or real["outside"] > 0):
            h = zlib.crc32(json.dumps([mol["coords"], mol["elems"], mol["chains"]]).encode())
            ctx.distinct((h, json.dumps(cfg, sort_keys=True)))
        else:
            ctx.count("trivial")
    return ok and len(ctx.spec_failures) + len(ctx.disagreements) == n_before


def _kept(model, n):
    """indices (within the subset) of the atoms the model kept: positions in `allpos` that are inside the shape"""
    shp = model["shape"]
    return [i for i, p in enumerate(model["allpos"]) if all(0 <= x < s for x, s in zip(p, shp))]


# ----------------------------------------------------------------------------------------------------------------
# generators
# ----------------------------------------------------------------------------------------------------------------
def gen_mol(rng, n, kind=None, nd=3, table_keys=None):
    kind = kind or str(rng.choice(["dyadic", "dense", "halfgrid", "pdb3", "f32", "int", "free", "nearcubic", "dyadic-wide"]))
    dtype = "float64"
    if kind == "dyadic":
        R = int(rng.choice([8, 24, 60]))
        c = rng.integers(-R, R + 1, size=(n, nd)) / 8.0
    elif kind == "dense":      # many atoms per voxel: the deposit must accumulate
        c = rng.integers(-12, 13, size=(n, nd)) / 8.0 + rng.integers(-3, 4, size=nd)
    elif kind == "dyadic-wide":
        c = rng.integers(-400, 401, size=(n, nd)) / 8.0 + rng.integers(-50, 50, size=nd)
    elif kind == "halfgrid":
        c = rng.integers(-12, 13, size=(n, nd)) / 2.0
    elif kind == "pdb3":
        c = np.round(rng.uniform(-30, 30, size=(n, nd)) + rng.uniform(-100, 100, size=nd), 3)
    elif kind == "f32":
        c = np.round(rng.uniform(-20, 20, size=(n, nd)) + rng.uniform(-100, 100, size=nd), 3).astype(np.float32).astype(np.float64)
        dtype = "float32"
    elif kind == "int":
        c = rng.integers(-15, 16, size=(n, nd)).astype(np.float64)
        dtype = "int64"
    elif kind == "nearcubic":
        ext = 6.0 + rng.integers(0, 5, size=nd) / 4.0          # extents differ by fractions of a voxel
        c = np.round(rng.uniform(0, 1, size=(n, nd)) * ext * 8) / 8.0
        c[0] = 0
        if n > 1:
            c[1] = ext
    else:
        c = rng.uniform(-25, 25, size=(n, nd))
    pool = list(COMMON) * 5 + list(UNKNOWN) + (list(table_keys) if table_keys else [])
    elems = [str(rng.choice(COMMON)) if rng.random() < 0.7 else str(pool[int(rng.integers(len(pool)))]) for _ in range(n)]
    labels = ["A", "B", "C", "AA", "a", "1"]
    nch = int(rng.integers(1, 5))
    use = [labels[int(i)] for i in rng.choice(len(labels), size=nch, replace=False)]
    chains = [use[int(rng.integers(nch))] for _ in range(n)]
    return {"coords": c.tolist(), "dtype": dtype, "elems": elems, "chains": chains, "kind": kind}


def gen_cfg(rng, mol, force=None):
    nd = len(mol["coords"][0])
    czyx = _coords_array(mol).astype(np.float64)[:, ::-1]
    u = rng.random()
    if u < 0.2:
        rate, rk = None, None
    elif u < 0.55:
        rate, rk = float(rng.choice(RATES)), str(rng.choice(["scalar", "scalar", "int"]))
        if rk == "int":
            rate = float(max(1, int(round(rate))))
        if rng.random() < 0.25:
            rate, rk = [rate], str(rng.choice(["tuple", "array"]))
    else:
        rate, rk = [float(x) for x in rng.choice(RATES, size=nd)], str(rng.choice(["tuple", "list", "array"]))
    rr = resolved_rate({"rate": rate}, nd)
    r = np.array(rr)
    lo, hi = czyx.min(axis=0), czyx.max(axis=0)
    origin = None
    if rng.random() < 0.6:
        m = rng.random()
        if m < 0.4:      # below the minimum by a dyadic number of voxels
            origin = lo - rng.integers(0, 25, size=nd) / 8.0 * r
        elif m < 0.7:    # inside the molecule: atoms fall left of the grid
            origin = lo + (hi - lo) * rng.integers(0, 5, size=nd) / 8.0
            origin = np.round(origin * 8) / 8.0
        elif m < 0.85:
            origin = np.round(lo - rng.uniform(0, 3, size=nd), 3)
        else:
            origin = lo - rng.uniform(0, 3, size=nd)
        origin = [float(x) for x in origin]
    shape = None
    if rng.random() < 0.55:
        o_eff = np.array(origin) if origin is not None else lo
        full = np.floor((hi - o_eff) / r).astype(int) + 2
        m = rng.random()
        if m < 0.45:
            shape = full + rng.integers(0, 3, size=nd)
        elif m < 0.9:
            shape = np.maximum(1, (full * rng.uniform(0.3, 1.0, size=nd)).astype(int))
        else:
            shape = rng.integers(0, 4, size=nd)
        shape = [int(max(0, min(64, x))) for x in shape]
    chain = None
    labels = sorted(set(mol["chains"]))
    if rng.random() < 0.4:
        k = int(rng.integers(1, len(labels) + 1))
        pick = [labels[int(i)] for i in rng.choice(len(labels), size=k, replace=False)]
        if rng.random() < 0.15:
            pick.append("Z")
        chain = ",".join(pick)
    if shape is None:
        # keep derived grids small: coarsen the sampling until the box is below ~250k voxels
        while True:
            rr_ = np.array(resolved_rate({"rate": rate}, nd))
            ext = np.floor((hi - lo) / rr_) + 3
            if float(np.prod(ext)) <= 250000:
                break
            rate = (2.0 if rate is None else (rate * 2 if np.ndim(rate) == 0 else [x * 2 for x in rate]))
            rk = rk or "scalar"
    cfg = {"shape": shape, "rate": rate, "origin": origin, "chain": chain,
           "wt": str(rng.choice(["atomic_weight", "atomic_number"])),
           "api": "from_structure" if rng.random() < 0.3 else "to_volume",
           "rate_kind": rk or "tuple", "origin_kind": str(rng.choice(["tuple", "list", "array"])),
           "shape_kind": str(rng.choice(["tuple", "list", "array"]))}
    if force:
        cfg.update(force)
    return cfg


def gen_neartie(rng, n):
    """coordinates constructed at (k + 1/2 + delta) voxels from a planned origin."""
    nd = 3
    rate = [float(x) for x in rng.choice([1.0, 2.0, 0.5, 1.5, 2.2, 1.35], size=nd)]
    origin = [float(x) for x in np.round(rng.uniform(-20, 20, size=nd), int(rng.choice([0, 1, 3])))]
    ks = rng.integers(0, 9, size=(n, nd))
    deltas = rng.choice([0.0, 0.0, 1e-15, -1e-15, 1e-12, -1e-12, 1e-9, -1e-9, 1e-6, -1e-6, 0.25, -0.25], size=(n, nd))
    czyx = np.array(origin) + (ks + 0.5 + deltas) * np.array(rate)
    if rng.random() < 0.5:   # nudge by single ulps
        czyx = np.nextafter(czyx, czyx + rng.choice([-1.0, 1.0], size=czyx.shape))
    c = czyx[:, ::-1]
    mol = {"coords": c.tolist(), "dtype": "float64", "elems": [str(rng.choice(COMMON)) for _ in range(n)],
           "chains": ["A"] * n, "kind": "neartie"}
    mode = int(rng.integers(3))
    cfg = {"shape": [11, 11, 11] if mode == 0 else None, "rate": rate, "origin": origin if mode != 2 else None, "chain": None,
           "wt": str(rng.choice(["atomic_weight", "atomic_number"])), "api": "to_volume",
           "rate_kind": "tuple", "origin_kind": "tuple", "shape_kind": "tuple"}
    return mol, cfg


# ----------------------------------------------------------------------------------------------------------------
# additive clauses (chains through the API, elements through files)
# ----------------------------------------------------------------------------------------------------------------
def embed(G, off, shape):
    out = np.zeros(shape, dtype=np.float64)
    src, dst = [], []
    for k in range(G.ndim):
        lo = max(0, off[k])
        hi = min(shape[k], off[k] + G.shape[k])
        if hi <= lo:
            return out, float(G.sum())
        dst.append(slice(lo, hi))
        src.append(slice(lo - off[k], hi - off[k]))
    out[tuple(dst)] = G[tuple(src)]
    return out, float(G.sum() - G[tuple(src)].sum())


def chain_diff(ctx, mol, cfg, S=None):
    """grid(all chains) - grid(chains S) == grid(the removed chains), all three from the real code."""
    labels = sorted(set(mol["chains"]))
    if len(labels) < 2 or cfg["origin"] is None:
        return
    if S is None:
        rng = np.random.default_rng(zlib.crc32(json.dumps(cfg, sort_keys=True).encode()))
        k = int(rng.integers(1, len(labels)))
        S = [labels[int(i)] for i in rng.choice(len(labels), size=k, replace=False)]
    Sc = [x for x in labels if x not in S]
    base = dict(cfg, chain=None, api="to_volume")
    st = make_structure(mol)
    full = call_real(st, base)
    a = call_real(st, dict(base, chain=",".join(S)))
    b = call_real(st, dict(base, chain=",".join(Sc)))
    inp = {"mol": mol, "cfg": base, "chains_kept": S, "chains_removed": Sc}
    if "raised" in full or "raised" in a or "raised" in b:
        ctx.spec("chain restriction returns", inp, False, [full.get("raised"), a.get("raised"), b.get("raised")], key="to_volume:raised")
        return
    r = full["rate"]
    F = full["grid"].astype(np.float64)
    parts = []
    for g in (a, b):
        off = (g["origin"] - full["origin"]) / r
        if np.any(np.abs(off - np.round(off)) > 1e-6):
            ctx.count("chain-diff:skipped-non-integer-offset")
            return
        e, lost = embed(g["grid"].astype(np.float64), [int(x) for x in np.round(off)], F.shape)
        parts.append(e)
    ok = grids_close(F - parts[0], parts[1])
    ctx.spec("restricting to chains changes the grid by exactly the removed atoms", inp, ok,
             {"max_abs_diff": float(np.abs(F - parts[0] - parts[1]).max()) if F.size else 0.0}, key="to_volume:chain-diff")
    # outside counts add up when the shape is given
    if cfg["shape"] is not None:
        ctx.spec("outside counts of complementary chain subsets add up", inp, a["outside"] + b["outside"] == full["outside"],
                 [a["outside"], b["outside"], full["outside"]], key="to_volume:outside-count")
    ctx.count("chain-diff")
    ctx.distinct(("chain-diff", zlib.crc32(json.dumps(mol["coords"]).encode()), json.dumps(base, sort_keys=True), S))


def element_filter(ctx, rng, mol, cfg, E=None, decoy=None):
    """Density.from_structure(file, filter_by_elements=E): the grid changes by exactly the removed atoms."""
    from tme import Density, Structure
    from pv import env
    path = os.path.join(env.scratch(), "c10_%08x.pdb" % int(rng.integers(1 << 32)))
    src = make_structure(mol)
    try:
        src.to_file(path)
        parsed = Structure.from_file(path)
    except Exception:  # noqa  (file formats are C09's business)
        ctx.count("element-filter:skipped-io")
        return
    pm = {"coords": parsed.atom_coordinate.astype(np.float64).tolist(), "dtype": str(parsed.atom_coordinate.dtype),
          "elems": [str(x) for x in parsed.element_symbol], "chains": [str(x) for x in parsed.chain_identifier], "kind": "file"}
    if pm["dtype"] not in ("float32", "float64") or not pm["coords"]:
        ctx.count("element-filter:skipped-io")
        return
    present = sorted(set(pm["elems"]))
    if len(present) < 2:
        return
    if E is None:
        k = int(rng.integers(1, len(present)))
        E = {present[int(i)] for i in rng.choice(len(present), size=k, replace=False)}
    Ec = set(present) - E
    # decoys: element names that are NOT in the file but close to one that is (longer: 'C' -> 'CA', 'S' -> 'SE'; other case);
    # they select nothing, so the expected grids are unchanged
    two = ["CA", "CL", "CU", "CO", "CD", "NA", "NE", "NI", "SE", "SI", "SR", "OS", "HE", "HG", "FE", "PT", "PB", "MG", "MN", "ZN", "BR", "KR"]
    decoys = [x for x in two if x not in present and x[0] in present] + [x.lower() for x in present if x.lower() not in present]
    fE, fEc = set(E), set(Ec)
    if decoys and (decoy if decoy is not None else rng.random() < 0.6):
        fE |= {decoys[int(rng.integers(len(decoys)))]}
        fEc |= {decoys[int(rng.integers(len(decoys)))], decoys[int(rng.integers(len(decoys)))]}
    kw = {}
    if cfg["shape"] is not None:
        kw["shape"] = tuple(cfg["shape"])
    if cfg["origin"] is not None:
        kw["origin"] = tuple(cfg["origin"])
    if cfg["rate"] is not None:
        kw["sampling_rate"] = cfg["rate"]
    kw["weight_type"] = cfg["wt"]
    inp = {"mol": pm, "cfg": dict(cfg, chain=None, api="from_structure(file)"), "elements_kept": sorted(E),
           "filters_passed": [sorted(fE), sorted(fEc)], "decoy": bool(fE != E or fEc != Ec)}
    try:
        dens = [Density.from_structure(path, filter_by_elements=f, **kw) for f in (None, fE, fEc)]
    except Exception as e:  # noqa
        ctx.spec("element restriction returns", inp, False, type(e).__name__ + ":" + str(e)[:100], key="to_volume:raised")
        return
    # each of the three obeys the voxel clauses for the atoms it should contain
    for dd, keep in zip(dens, (set(present), E, Ec)):
        idxs = [i for i, e in enumerate(pm["elems"]) if e in keep]
        sub = {"coords": [pm["coords"][i] for i in idxs], "dtype": pm["dtype"], "elems": [pm["elems"][i] for i in idxs],
               "chains": [pm["chains"][i] for i in idxs], "kind": "file"}
        real = {"grid": np.asarray(dd.data), "origin": np.asarray(dd.origin, dtype=np.float64).reshape(-1),
                "rate": np.asarray(dd.sampling_rate, dtype=np.float64).reshape(-1),
                "outside": int(dd.metadata.get("nAtoms_outOfBound", -1))}
        c2 = dict(cfg, chain=None)
        res, _ = spec_eval(ctx, sub, c2, real, relaxed_ties=False)
        if any(not r[1] for r in res) and cfg["origin"] is not None and cfg["shape"] is None:
            res2, _ = spec_eval(ctx, sub, c2, real, relaxed_ties=True)
            keyo = KEY_TIE if all(r[1] for r in res2) else None
        else:
            keyo = None
        if keyo == KEY_TIE:
            _TABLE["tie_cases"] = _TABLE.get("tie_cases", 0) + 1
            ctx.count("known-tie-class-cases")
        for clause, good, detail in res:
            if keyo == KEY_TIE and not good and _TABLE["tie_cases"] > 12:
                ctx.evaluations += 1
                continue
            ctx.spec("element-filtered density: " + clause, dict(inp, kept=sorted(keep)), good, detail,
                     key=keyo or ("from_structure:elements:" + clause))
    if cfg["origin"] is not None:
        F = dens[0].data.astype(np.float64)
        r = np.asarray(dens[0].sampling_rate, dtype=np.float64)
        parts = []
        for g in dens[1:]:
            off = (np.asarray(g.origin, dtype=np.float64) - np.asarray(dens[0].origin, dtype=np.float64)) / r
            if np.any(np.abs(off - np.round(off)) > 1e-6):
                return
            parts.append(embed(g.data.astype(np.float64), [int(x) for x in np.round(off)], F.shape)[0])
        ctx.spec("restricting to elements changes the grid by exactly the removed atoms", inp,
                 grids_close(F - parts[0], parts[1]), key="from_structure:elements-diff")
    ctx.count("element-filter")
    ctx.distinct(("element-filter", zlib.crc32(json.dumps(pm["coords"]).encode()), sorted(E), json.dumps(inp["cfg"], sort_keys=True)))


# ----------------------------------------------------------------------------------------------------------------
def check_table(ctx):
    t, e = table_from_repo()
    _TABLE["t"], _TABLE["e"] = t, e
    model = ctx.driver.call("c10.table")
    mt = {k: (z, w) for k, z, w in model}
    bad = []
    if len(model) != len(mt):
        bad.append("duplicate keys in the model table")
    for k in sorted(set(t) | set(mt)):
        if k not in t or k not in mt:
            bad.append(f"{k}: only in {'repo' if k in t else 'model'}")
        elif t[k][0] != mt[k][0] or abs(t[k][1] * 1e9 - mt[k][1]) > 1e-3:
            bad.append(f"{k}: repo {t[k]} model {mt[k]}")
    dflt = e._default
    if dflt.atomic_number != 0 or dflt.atomic_weight != 0:
        bad.append(f"default entry {dflt.atomic_number},{dflt.atomic_weight} (model: 0, 0)")
    ctx.obligation("element-table == Pm.C10.elementTable", not bad, bad[:8])
    # lookup semantics (exact key, default for anything else) through the real accessor
    from tme import Structure  # noqa
    probe = sorted(t)[:] + UNKNOWN + ["h", "Ca", "CA", "FE", "Fe", "ZN", " C", "C "]
    st = make_structure({"coords": [[0.0, 0.0, 0.0]], "dtype": "float64", "elems": ["C"], "chains": ["A"]})
    for wt, unit in (("atomic_weight", 1e9), ("atomic_number", 1)):
        impl = [int(round(float(x) * unit)) for x in st._get_atom_weights(atoms=probe, weight_type=wt)]
        ctx.agree("_get_atom_weights:" + wt, {"symbols": probe}, impl, ctx.driver.call("c10.weights", wt=wt, syms=probe))
    return not bad


def check_rint(ctx, rng):
    """numpy.rint == model rint on exactly representable quotients (the rounding contract)."""
    qs = [Fraction(int(k), 8) for k in range(-80, 81)] + [Fraction(int(rng.integers(-10 ** 6, 10 ** 6)), 1 << int(rng.integers(0, 20)))
                                                           for _ in range(300)]
    model = ctx.driver.call("c10.rint", qs=[[q.numerator, q.denominator] for q in qs])
    impl = np.rint(np.array([float(q) for q in qs])).astype(int).tolist()
    ctx.agree("np.rint", {"n": len(qs)}, impl, [m[0] for m in model])
    for q, m in zip(qs, impl):
        ctx.spec("rint is a nearest integer", {"q": str(q)}, abs(Fraction(m) - q) <= Fraction(1, 2), key="numpy:rint")


def sizes(ctx, rng):
    if ctx.thorough:
        return int(rng.choice([1, 2, 3, 5, 8, 13, 30, 60, 120, 250, 400]))
    return int(rng.choice([1, 2, 3, 5, 8, 13, 30, 60]))


def run_corpus(ctx):
    from pv import env
    for f in sorted(glob.glob(os.path.join(env.VERIF, "corpus", "C10_*.json"))):
        rec = json.load(open(f))
        for case in rec["cases"]:
            check_case(ctx, case["mol"], case["cfg"], history=case.get("history"))
            ctx.count("corpus")


def run(ctx):
    rng = ctx.rng("main")
    if not check_table(ctx):
        ctx.note("element table differs from the model constants")
    check_rint(ctx, rng)
    run_corpus(ctx)
    keys = sorted(_TABLE["t"])

    # ---- main stream: a structure, several configurations on the same object (metadata must not go stale)
    n_mol = ctx.budget(800, 6000)
    for i in range(n_mol):
        nd = 2 if rng.random() < 0.05 else 3
        mol = gen_mol(rng, sizes(ctx, rng), nd=nd, table_keys=keys)
        st = make_structure(mol)
        hist = []
        for j in range(int(rng.integers(2, 6))):
            cfg = gen_cfg(rng, mol)
            check_case(ctx, mol, cfg, st=st, history=list(hist))
            hist.append(cfg)
            if j == 0 and i % 3 == 0:
                chain_diff(ctx, mol, gen_cfg(rng, mol, force={"chain": None}))
        if i % 4 == 0 and nd == 3 and mol["dtype"] != "int64":
            element_filter(ctx, rng, mol, gen_cfg(rng, mol, force={"chain": None}))
        if i < 4:
            ctx.sample({"coords[:3]": mol["coords"][:3], "n": len(mol["coords"]), "elems[:3]": mol["elems"][:3], "cfg": cfg})

    # ---- malformed stream: wrong number of rates, chains that do not exist (both must raise, as the model says)
    for i in range(ctx.budget(12, 60)):
        mol = gen_mol(rng, int(rng.integers(1, 6)), table_keys=keys)
        cfg = gen_cfg(rng, mol)
        if i % 2:
            cfg["rate"], cfg["rate_kind"] = [1.0, 2.0] if i % 4 == 1 else [1.0, 2.0, 0.5, 1.0], "tuple"
        else:
            cfg["chain"] = str(rng.choice(["Z", "zz,Q", "", "b"]))
        check_case(ctx, mol, cfg)
        ctx.count("malformed")

    # ---- near-.5 stream
    for i in range(ctx.budget(300, 5000)):
        mol, cfg = gen_neartie(rng, int(rng.integers(1, 7)))
        check_case(ctx, mol, cfg)

    # ---- bundled entries
    from tme import Structure
    from pv import env
    for name in ("5khe.cif", "1pdj.pdb"):
        p = os.path.join(env.REPO, "tests", "data", "Structures", name)
        if not os.path.exists(p) or os.path.getsize(p) == 0:
            ctx.count("bundled:missing")
            continue
        try:
            s = Structure.from_file(p)
        except Exception:  # noqa
            ctx.count("bundled:unreadable")
            continue
        if not ctx.thorough:
            s = s[np.arange(0, s.atom_coordinate.shape[0], 4)]
        mol = {"coords": s.atom_coordinate.astype(np.float64).tolist(), "dtype": str(s.atom_coordinate.dtype),
               "elems": [str(x) for x in s.element_symbol], "chains": [str(x) for x in s.chain_identifier], "kind": "bundled:" + name}
        if mol["dtype"] not in ("float32", "float64"):
            continue
        for j in range(ctx.budget(2, 6)):
            cfg = gen_cfg(rng, mol)
            if cfg["shape"] is not None:
                cfg["shape"] = [min(40, x) for x in cfg["shape"]]
            check_case(ctx, mol, cfg)


def search(ctx):
    """Correspondence / an obligation broke without a failing input: sweep single atoms over sub-voxel offsets on every
    axis (all four origin/shape modes, several rates), pairs for collisions and x/z asymmetry, then a wider random stream."""
    rng = ctx.rng("search")
    fails = lambda: sum(1 for f in ctx.spec_failures if f["key"] != KEY_TIE)
    base = fails()
    for d in ctx.disagreements[:10]:
        inp = d.get("input") or {}
        if isinstance(inp, dict) and "mol" in inp and "cfg" in inp:
            check_case(ctx, inp["mol"], inp["cfg"], history=inp.get("history"), record=False)
    if fails() > base:
        return
    for rate in (1.0, 2.0, 0.5, 1.5):
        for axis in range(3):
            for k in range(-20, 21):
                c = [3.0, 5.0, 7.0]
                c[axis] += k / 8.0
                mol = {"coords": [c, [9.0, 2.0, 4.0]], "dtype": "float64", "elems": ["C", "N"], "chains": ["A", "B"], "kind": "sweep"}
                for origin, shape in ((None, None), ([0.0, 0.0, 0.0], None), ([1.0, 1.0, 1.0], [12, 12, 12]), (None, [3, 3, 3])):
                    for wt in ("atomic_weight", "atomic_number"):
                        cfg = {"shape": shape, "rate": rate, "origin": origin, "chain": None, "wt": wt, "api": "to_volume",
                               "rate_kind": "scalar", "origin_kind": "tuple", "shape_kind": "tuple"}
                        check_case(ctx, mol, cfg, record=False)
        if fails() > base:
            return
    keys = sorted(_TABLE.get("t", {}))
    for i in range(ctx.budget(300, 2000)):
        mol = gen_mol(rng, int(rng.choice([2, 3, 5, 20, 80])), table_keys=keys)
        st = make_structure(mol)
        hist = []
        for j in range(4):
            cfg = gen_cfg(rng, mol)
            check_case(ctx, mol, cfg, st=st, history=list(hist), record=False)
            hist.append(cfg)
        if i % 5 == 0:
            chain_diff(ctx, mol, gen_cfg(rng, mol, force={"chain": None}))
        if fails() > base and i > 20:
            return


def replay(ctx, rec):
    check_table(ctx)
    inp = rec.get("input") or {}
    if "elements_kept" in inp:
        element_filter(ctx, ctx.rng("replay"), inp["mol"], inp["cfg"], E=set(inp["elements_kept"]), decoy=inp.get("decoy"))
    elif "mol" in inp and "cfg" in inp:
        check_case(ctx, inp["mol"], inp["cfg"], history=inp.get("history"))
        if "chains_kept" in inp:
            chain_diff(ctx, inp["mol"], inp["cfg"], S=inp["chains_kept"])
    else:
        run(ctx)
