"""C08 — density files round-trip and subset reads equal slicing the full volume.

Leg B: the real `Density.to_file` / `Density.from_file` of the repo under test are run on generated
volumes; the bytes they put on disk and everything they read back are compared with the Lean model
(Model/C08.lean: EM byte layout incl. the dtype the writer chooses, MRC header fields + payload, row-wise
sub-box reader with the full-box shortcut for every item size and every MAPC/MAPR/MAPS order, slice
validation, gzip sniffing, format dispatch), and every clause of the property is evaluated directly on what
the real code returned.

Streams (all from `ctx.rng`, every failing input is self-contained and replayable):
  check_case     one volume written by `to_file` (dtype x byte order x memory layout x form of origin / sampling rate x
                 call form x format x gzip), optionally re-compressed / gunzipped / renamed, read in memory, memory-mapped
                 and by sub-boxes (python / numpy integer bounds)
  check_foreign  MRC files written by mrcfile itself: data modes, big-endian, extended header, start indices, axis orders
  session_*      sequences in one process: one object -> many files, two files named alike, read -> write -> read chains
  big_sparse     files beyond 2 and 4 GiB (sparse), _wide_cases: extents beyond one and two bytes, volumes of 1-10 MB
  _deepen3       decisions beyond well-formed boxes: `subset` as python slices (None / negative / step / length) per format,
                 use_memmap granted or dropped, files truncated inside the payload (short reads as coded), EM files with an
                 unknown type code, EM headers of rank 1-5 volumes, the EM sampling word for exact rates, mrcfile's mode
                 tables, header read under a permuted MAPC/MAPR/MAPS (in check_foreign)"""
import ast
import glob
import gzip as _gzip
import itertools
import json
import os
from fractions import Fraction

import numpy as np

from .. import env

ID = "C08"
RULE = ("generated 3-D volumes with pairwise distinct extents (1..7 quick / ..12 thorough, a few long axes, axes crossing the "
        "256 and 65536 boundaries, volumes of 1-10 MB, sparse files beyond 2 GiB), payloads from random finite bit patterns "
        "(incl. +-0, denormals, max), normals, scaled/offset, constant and zero volumes, held as float32/float64/float16/"
        "(u)int8/16/32/int64/bool in native or big-endian byte order and in C / Fortran / strided / permuted / reversed / offset "
        "/ read-only / memory-mapped layout; origins (zero, grid multiples, arbitrary, negative, large, small), per-axis rates "
        "(0.01..2000), both handed over as tuple / list / float64 / float32 / int arrays / scalars / left out / assigned as "
        "attributes; mrc/map/em/h5 x gzip x memmap; files re-compressed by another gzip (levels, FNAME, two members) or "
        "gunzipped before reading; MRC files written by mrcfile itself (modes int8/int16/uint16/float16/float32, big-endian, "
        "extended headers, all six MAPC/MAPR/MAPS orders); all sub-boxes of tiny volumes exhaustively, random boxes (incl. "
        "full, single voxel, empty, full along every subset of axes) otherwise, bounds as python or numpy integers, each with "
        "or without use_memmap; a malformed-box stream (out of range, negative, reversed, wrong rank); sessions in one "
        "process: one object written to every format and again after being changed, two files that differ in name only by "
        "length / case / directory read alternately, chains read -> write (other format) -> read, the same path rewritten; "
        "subset requests as python slices with None / negative / out-of-range / reversed bounds, steps 0, -1, 1, 2, 3 and 1, 2 or 4 "
        "entries on every format x gzip; mrc / em files cut short inside the payload (item-aligned and ragged, rows ending at the "
        "cut); EM files with type codes outside the table; EM files of rank 1-5 densities; dyadic sampling rates incl. 0, negative "
        "and below 0.001 for the EM sampling word. "
        "distinct = (format, gzip, shape, dtype, layout, box/memmap) tuples whose volume has > 1 voxel and whose box is "
        "non-empty; single-voxel volumes and empty boxes are compared but not counted")
ASSUMPTIONS = [
    "gzip (python stdlib) satisfies the GzipContract of the model: magic number + decompress(compress x) = x (checked on every compressed file)",
    "mrcfile / h5py internals are exercised, not modelled: MRC is tied at the level of header words at fixed offsets + payload bytes, HDF5 only through what is read back",
    "astype(float32) of float32-representable values of any dtype is exact (numpy); generated integers stay within +-2^24",
    "int(sampling_rate*1000) (float multiply + truncation, in the dtype the rate was given in) enters the EM model as the integer it produces",
    "origin / sampling are compared with 1 ulp(float32) (MRC origin), 2^-22 relative (MRC sampling: two float roundings), exactly (HDF5), 0.001 A (EM, isotropic only)",
    "MRC files with a non-standard MAPC/MAPR/MAPS are only required to be self-consistent (sub-box = slice of the full read, memmap = in-memory); which physical axis ends up where is not part of the property",
]
TRUSTED = ["C08: gzip, mrcfile, h5py, numpy casts; float32 rounding of header fields is absorbed by the stated tolerances"]

EXTS = ("mrc", "map", "em", "h5")
_UINT = {1: np.uint8, 2: np.uint16, 4: np.uint32, 8: np.uint64}
# dtype key -> numpy dtype handed to Density ("-be": non-native byte order)
_DTYPES = {"float32": "<f4", "float64": "<f8", "float16": "<f2", "int8": "i1", "int16": "<i2", "int32": "<i4", "int64": "<i8",
           "uint8": "u1", "uint16": "<u2", "uint32": "<u4", "bool": "?", "float32-be": ">f4", "float64-be": ">f8", "int16-be": ">i2"}
_DT_CHOICES = ["float32"] * 9 + ["float64"] * 2 + [k for k in _DTYPES if k not in ("float32", "float64")]
_LAYOUTS = ["C"] * 4 + ["F", "strided", "permuted", "reversed", "offset", "readonly", "memmap"]
_OFORMS = ["tuple"] * 5 + ["list", "f8", "f4", "i8", "scalar", "none", "attr"]
_RFORMS = ["tuple"] * 5 + ["list", "f8", "f4", "i8", "scalar", "scalar-int", "none", "attr"]
_TRANSPORTS = [None] * 6 + ["regzip-1", "regzip-fname", "regzip-multi", "gunzipped", "gz-renamed"]
_BOXFORMS = ["int"] * 3 + ["np64", "np32", "npi", "step1"]
_KNOWN = ("mrc:subset:nx-gzip-magic", "mrc:origin:allclose0-with-nonzero-start")


# ------------------------------------------------------------------------------------------------
# case construction
# ------------------------------------------------------------------------------------------------
def _finite_bits(rng, n):
    b = rng.integers(0, 2 ** 32, size=n, dtype=np.uint64).astype(np.uint32)
    bad = (b >> 23) & 0xFF == 0xFF          # inf / nan
    b[bad] &= np.uint32(0xBF7FFFFF)
    special = np.array([0x00000000, 0x80000000, 0x00000001, 0x807FFFFF, 0x7F7FFFFF, 0xFF7FFFFF, 0x3F800000], np.uint32)
    k = min(n, int(rng.integers(0, 4)))
    if k:
        b[rng.choice(n, size=k, replace=False)] = rng.choice(special, size=k)
    return b


def _gen_bits(rng, dtype, n):
    """(bit patterns of n voxels in the native form of `dtype` as uint64, kind).  float64 volumes are described by
    float32 patterns (their values are float32 values); integers stay within +-2^24 so that the float32 image is exact."""
    base = dtype.replace("-be", "")
    if base in ("float32", "float64"):
        r = rng.random()
        if base == "float32" and r < 0.35:
            return _finite_bits(rng, n).astype(np.uint64), "bitpatterns"
        if r < 0.43:
            v, kind = np.full(n, rng.standard_normal() * 10.0 ** int(rng.integers(-9, 4))), "constant"
        elif r < 0.48:
            v, kind = np.zeros(n), "zeros"
        elif r < 0.65:
            sc = 10.0 ** int(rng.integers(-9, 4))
            v, kind = (rng.standard_normal(n) + float(rng.choice([0.0, 5.0, -300.0, 1e4]))) * sc, "scaled-offset"
        else:
            v, kind = rng.standard_normal(n), "normal"
        return v.astype(np.float32).view(np.uint32).astype(np.uint64), kind
    if base == "float16":
        b = rng.integers(0, 2 ** 16, size=n, dtype=np.uint64)
        bad = (b >> 10) & 0x1F == 0x1F
        b[bad] &= np.uint64(0xBFFF)
        return b, "float16-patterns"
    if base == "bool":
        return rng.integers(0, 2, size=n, dtype=np.uint64), "bool"
    w = np.dtype(base).itemsize
    if w <= 2:
        return rng.integers(0, 2 ** (8 * w), size=n, dtype=np.uint64), "int-full-range"
    lo = 0 if base.startswith("u") else -2 ** 24
    v = rng.integers(lo, 2 ** 24 + 1, size=n)
    return v.astype(base).view(_UINT[w]).astype(np.uint64), "int-24bit"


def gen_case(rng, ctx=None, wide=False, fmt=None, gz=None, plain=False):
    """`plain`: the pre-widening distribution (float32/float64, C/F/strided, tuples) used where the volume is replaced"""
    hi = 12 if (wide or (ctx is not None and ctx.thorough)) else 7
    r = rng.random()
    if r < 0.68:
        shape = [int(x) for x in rng.choice(np.arange(1, hi + 1), size=3, replace=False)]
    elif r < 0.82:
        shape = [int(x) for x in rng.integers(1, hi + 1, size=3)]
    elif r < 0.92:
        shape = [int(x) for x in rng.choice(np.arange(1, 5), size=3, replace=False)]
        shape[int(rng.integers(0, 3))] = int(rng.integers(20, 60 if not wide else 200))
    else:   # an extent that needs a second byte in the header / in offsets
        shape = [int(x) for x in rng.choice(np.arange(1, 4), size=3, replace=False)]
        shape[int(rng.integers(0, 3))] = int(rng.integers(250, 300))
    n = int(np.prod(shape))
    dtype = str(rng.choice(["float32", "float32", "float32", "float64"] if plain else _DT_CHOICES))
    bits, vk = _gen_bits(rng, dtype, n)
    layout = str(rng.choice(["C", "C", "C", "F", "strided"] if plain else _LAYOUTS))
    rk = str(rng.choice(["ones", "iso", "aniso", "aniso", "dyadic", "small", "big"]))
    if rk == "ones":
        rate = [1.0, 1.0, 1.0]
    elif rk == "iso":
        rate = [float(np.round(rng.uniform(0.5, 20.0), int(rng.integers(1, 4))))] * 3
    elif rk == "dyadic":
        rate = [float(x) for x in rng.choice([0.5, 1.25, 2.0, 4.0, 0.75], size=3)]
    elif rk == "small":
        rate = [float(x) for x in rng.uniform(0.01, 0.3, size=3)]
    elif rk == "big":
        rate = [float(x) for x in rng.uniform(25.0, 2000.0, size=3)]
    else:
        rate = [float(x) for x in rng.uniform(0.3, 25.0, size=3)]
    ok_ = str(rng.choice(["zero", "grid", "grid-half", "arbitrary", "negative", "large", "mixed-zero", "small"]))
    if ok_ == "zero":
        origin = [0.0, 0.0, 0.0]
    elif ok_ == "grid":
        origin = [float(int(k) * s) for k, s in zip(rng.integers(-50, 50, size=3), rate)]
    elif ok_ == "grid-half":
        if rk not in ("ones", "dyadic"):
            rate = [float(x) for x in rng.choice([0.5, 1.25, 2.0, 4.0], size=3)]
        origin = [float((int(k) + 0.5) * s) for k, s in zip(rng.integers(-9, 9, size=3), rate)]
    elif ok_ == "arbitrary":
        origin = [float(x) for x in rng.uniform(-300, 300, size=3)]
    elif ok_ == "negative":
        origin = [-float(x) for x in rng.uniform(0.1, 500, size=3)]
    elif ok_ == "large":
        origin = [float(x) for x in rng.uniform(-1, 1, size=3) * 10.0 ** rng.integers(3, 7)]
    elif ok_ == "small":
        origin = [float(x) for x in rng.uniform(-1, 1, size=3) * 10.0 ** (-float(rng.integers(1, 7)))]
    else:
        origin = [0.0, float(rng.uniform(-40, 40)), 0.0]
    fmt = fmt or str(rng.choice(EXTS))
    gz = bool(rng.integers(0, 2)) if gz is None else gz
    case = {"shape": shape, "bits": bits.tolist(), "dtype": dtype, "layout": layout, "origin": origin, "rate": rate,
            "fmt": fmt, "gzip": gz, "kinds": {"values": vk, "rate": rk, "origin": ok_}}
    if plain:
        return case
    # the form in which origin and sampling rate reach the object: the values are made representable in that form
    of, rf = str(rng.choice(_OFORMS)), str(rng.choice(_RFORMS))
    if of == "none":
        origin = [0.0, 0.0, 0.0]
    elif of == "scalar":
        origin = [origin[0]] * 3
    elif of == "f4":
        origin = [float(np.float32(x)) for x in origin]
    elif of == "i8":
        origin = [float(np.round(x)) for x in origin]
    if rf == "none":
        rate = [1.0, 1.0, 1.0]
    elif rf == "scalar":
        rate = [rate[0]] * 3
    elif rf == "scalar-int":
        rate = [float(max(1, round(rate[0])))] * 3
    elif rf == "f4":
        rate = [float(np.float32(x)) for x in rate]
    elif rf == "i8":
        rate = [float(max(1, round(x))) for x in rate]
    tr = rng.choice(np.array(_TRANSPORTS, dtype=object))
    if fmt == "h5" or (tr in ("gunzipped", "gz-renamed") and not gz):
        tr = None
    case.update(origin=origin, rate=rate, oform=of, rform=rf, transport=tr,
                call=str(rng.choice(["kw", "kw", "pos", "default", "gzname"])))
    return case


_incounter = [0]


def _layout(a, lay):
    """the same values in the requested memory layout"""
    if lay == "F":
        return np.asfortranarray(a)
    if lay == "strided":
        big = np.zeros(tuple(2 * s + 1 for s in a.shape), dtype=a.dtype)
        big[1::2, 1::2, 1::2] = a
        return big[1::2, 1::2, 1::2]
    if lay == "permuted":          # neither C- nor F-contiguous
        return np.ascontiguousarray(a.transpose(1, 2, 0)).transpose(2, 0, 1)
    if lay == "reversed":          # negative strides
        return np.ascontiguousarray(a[::-1, ::-1, ::-1])[::-1, ::-1, ::-1]
    if lay == "offset":            # window of a larger buffer
        big = np.zeros(tuple(s + 3 for s in a.shape), dtype=a.dtype)
        big[1:-2, 2:-1, 1:-2] = a
        return big[1:-2, 2:-1, 1:-2]
    if lay == "readonly":
        a = np.ascontiguousarray(a).copy()
        a.flags.writeable = False
        return a
    if lay == "memmap":
        _incounter[0] += 1
        d = os.path.join(env.scratch(), "c08", "in")
        os.makedirs(d, exist_ok=True)
        p = os.path.join(d, f"in{_incounter[0]}.raw")
        np.ascontiguousarray(a).tofile(p)
        return np.memmap(p, dtype=a.dtype, mode="r", shape=a.shape)
    return np.ascontiguousarray(a)


def _volume(case):
    """the float32 reference volume and the array handed to Density (dtype / byte order / memory layout as requested)"""
    shape = tuple(case["shape"])
    dt = case.get("dtype", "float32")
    base = dt.replace("-be", "")
    n = int(np.prod(shape))
    if "bits" in case:
        bits = np.array(case["bits"], dtype=np.uint64)
    elif "valseed" in case:   # large volumes are described, not listed
        bits = _gen_bits(np.random.default_rng(case["valseed"]), dt, n)[0]
    else:
        bits = np.arange(n, dtype=np.float32).view(np.uint32).astype(np.uint64)
    if base in ("float32", "float64"):
        a = bits.astype(np.uint32).view(np.float32).astype(base)
    elif base == "bool":
        a = bits.astype(np.uint8).astype(bool)
    else:
        a = bits.astype(_UINT[np.dtype(base).itemsize]).view(np.dtype(base))
    a = a.reshape(shape)
    ref = a.astype(np.float32)
    if dt.endswith("-be"):
        a = a.astype(np.dtype(_DTYPES[dt]))
    return ref, _layout(a, case.get("layout", "C"))


def _hdr_obj(vals, form):
    if form == "none":
        return None
    if form == "scalar":
        return float(vals[0])
    if form == "scalar-int":
        return int(vals[0])
    if form == "list":
        return [float(x) for x in vals]
    if form in ("f8", "attr"):
        return np.array(vals, dtype=np.float64)
    if form == "f4":
        return np.array(vals, dtype=np.float32)
    if form == "i8":
        return np.array([int(x) for x in vals], dtype=np.int64)
    return tuple(float(x) for x in vals)


def _density(case, a):
    """the Density object of a case, origin / sampling rate handed over in the form the case asks for"""
    from tme import Density
    of, rf = case.get("oform", "tuple"), case.get("rform", "tuple")
    kw = {}
    if of not in ("none", "attr"):
        kw["origin"] = _hdr_obj(case["origin"], of)
    if rf not in ("none", "attr"):
        kw["sampling_rate"] = _hdr_obj(case["rate"], rf)
    d = Density(a, **kw)
    if of == "attr":
        d.origin = _hdr_obj(case["origin"], of)
    if rf == "attr":
        d.sampling_rate = _hdr_obj(case["rate"], rf)
    return d


def _rate_milli(case):
    """int(self.sampling_rate[0] * 1000) of `_save_em`, in the arithmetic of the object the rate was given as"""
    r = _hdr_obj(case["rate"], case.get("rform", "tuple"))
    sr = np.asarray(1 if r is None else r)
    sr = np.repeat(sr, 3 // sr.size)
    return int(sr[0] * 1000)


def _u32(x):
    return np.ascontiguousarray(np.asarray(x).astype(np.float32, copy=False)).view(np.uint32)


def _same_bits(x, ref):
    x = np.asarray(x)
    return tuple(x.shape) == tuple(ref.shape) and np.array_equal(_u32(x), _u32(ref))


def _frac(x):
    f = Fraction(float(x))
    return [f.numerator, f.denominator]


def _close(v, r, rel):
    """float v (read from a float32 field) equals the exact rational r up to `rel`"""
    v = Fraction(float(v))
    return abs(v - r) <= abs(r) * rel + Fraction(1, 10 ** 44)


def _boxes_all(shape):
    rng_ax = [[(s, e) for s in range(n) for e in range(s + 1, n + 1)] for n in shape]
    return [list(b) for b in itertools.product(*rng_ax)]


def _boxes_random(rng, shape, k, forms=False):
    out = [[(0, n) for n in shape], [(n - 1, n) for n in shape], [(0, 1) for _ in shape]]
    for _ in range(k):
        b = []
        for n in shape:
            s = int(rng.integers(0, n))
            e = int(rng.integers(s + 1, n + 1))
            b.append((s, e))
        out.append(b)
    # full along a random subset of the axes, proper along the others (what an optimised reader would special-case)
    for _ in range(2 if forms else 0):
        b = []
        for n in shape:
            if rng.random() < 0.5 or n == 1:
                b.append((0, n))
            else:
                s = int(rng.integers(0, n))
                e = int(rng.integers(s + 1, n + 1 if s > 0 else n))
                b.append((s, e))
        out.append(b)
    # one box with an empty axis
    b = [(0, n) for n in shape]
    ax = int(rng.integers(0, 3))
    s = int(rng.integers(0, shape[ax] + 1))
    b[ax] = (s, s)
    out.append(b)
    if not forms:
        return out
    # every box: bounds as python / numpy integers, with or without use_memmap
    return [{"box": b, "memmap": bool(rng.integers(0, 2)) if i >= 2 else True, "form": str(rng.choice(_BOXFORMS))}
            for i, b in enumerate(out)]


def _boxes_malformed(rng, shape):
    nz, ny, nx = shape
    out = [
        [(0, nz + 1), (0, ny), (0, nx)], [(0, nz), (0, ny), (1, nx + 1)], [(1, nz + 1), (1, ny + 1), (1, nx + 1)],
        [(-1, nz), (0, ny), (0, nx)], [(0, nz), (-2, -1), (0, nx)], [(0, nz), (0, ny), (nx, 0)],
        [(nz + 1, nz + 1), (0, ny), (0, nx)], [(0, nz), (0, ny)], [(0, nz), (0, ny), (0, nx), (0, 1)],
        [(0, 1)], [(0, nz), (ny, ny), (nx, nx)],
    ]
    for _ in range(3):
        out.append([(int(rng.integers(-2, n + 3)), int(rng.integers(-2, n + 3))) for n in shape])
    return out


def _norm_boxes(boxes, memmap_boxes):
    """[(box, use_memmap, form)]; a box is a list of (start, stop) or a dict with its own memmap flag / bound type"""
    out = []
    for i, b in enumerate(boxes):
        if isinstance(b, dict):
            out.append(([tuple(x) for x in b["box"]], bool(b.get("memmap")), b.get("form", "int")))
        else:
            out.append(([tuple(x) for x in b], i < memmap_boxes, "int"))
    return out


# ------------------------------------------------------------------------------------------------
# running the real code
# ------------------------------------------------------------------------------------------------
_counter = [0]


def _dir(*sub):
    d = os.path.join(env.scratch(), "c08", *sub)
    os.makedirs(d, exist_ok=True)
    return d


def _path(case):
    _counter[0] += 1
    d = _dir()
    if case.get("reuse_path"):
        # the same file name written again with other content (a pipeline overwriting its output): what is read back must
        # be what was written last, whatever was read from that path before
        return os.path.join(d, f"{case['reuse_path']}.{case['fmt']}")
    return os.path.join(d, f"v{_counter[0]}.{case['fmt']}")


def _to_file(dens, p, gz, call="kw"):
    if call == "gzname" and gz:          # the caller already put ".gz" on the name
        p = p + ".gz"
    if call == "pos":
        dens.to_file(p, gz)
    elif call == "default" and not gz:
        dens.to_file(p)
    else:
        dens.to_file(p, gzip=gz)
    return p + ".gz" if gz and not p.endswith(".gz") else p


def _write(case):
    ref, a = _volume(case)
    p = _path(case)
    final = _to_file(_density(case, a), p, case["gzip"], case.get("call", "kw"))
    return ref, a, final


def _slices(box, form="int"):
    if form == "step1":
        return tuple(slice(int(s), int(e), 1) for s, e in box)
    cast = {"np64": np.int64, "np32": np.int32, "npi": np.intp}.get(form, int)
    return tuple(slice(cast(s), cast(e)) for s, e in box)


def _read(path, box=None, memmap=False, form="int"):
    """(ok, Density | error-name)"""
    from tme import Density
    try:
        sub = None if box is None else _slices(box, form)
        return True, Density.from_file(path, subset=sub, use_memmap=memmap)
    except Exception as e:  # noqa
        return False, type(e).__name__


def _inp(case, **kw):
    d = {k: v for k, v in case.items() if k != "kinds"}
    d.update(kw)
    return d


def _fmtkey(case):
    return "mrc" if case["fmt"] in ("mrc", "map") else case["fmt"]


def _origin_key(case):
    o, s = case["origin"], case["rate"]
    if all(abs(x) <= 1e-8 for x in o) and any(np.rint(x / y) != 0 for x, y in zip(o, s)):
        return "mrc:origin:allclose0-with-nonzero-start"
    return "mrc:origin"


def _arr_res(dens):
    return {"shape": list(dens.data.shape), "data": _u32(dens.data).reshape(-1).tolist()}


def _tokens(a, dtype):
    """tokens of `a` as `dtype` (native byte order) puts them on disk"""
    dt = np.dtype(dtype)
    return np.ascontiguousarray(np.asarray(a).astype(dt)).reshape(-1).view(_UINT[dt.itemsize]).tolist()


def _model_tokens_as_f32bits(tokens, dtype):
    dt = np.dtype(dtype)
    x = np.array(tokens, dtype=_UINT[dt.itemsize]).view(dt)
    return _u32(x).tolist()


_emw = {}


def _em_written(ctx, dt):
    """(dtype on disk, type code, item size) of `_save_em` for a density held as `dt`, from the model"""
    if dt not in _emw:
        m = ctx.driver.call("c08.emWrite", dtype=dt)
        _emw[dt] = (m["dtype"], m["code"], m["b"])
    return _emw[dt]


def _regzip(plain, how, name):
    """the plain bytes compressed the way other tools do it"""
    import io
    if how == "regzip-1":
        return _gzip.compress(plain, compresslevel=1)
    if how == "regzip-fname":       # gzip(1) stores the original file name and a time stamp
        buf = io.BytesIO()
        with _gzip.GzipFile(filename=name, mode="wb", fileobj=buf, compresslevel=9, mtime=1700000000) as fh:
            fh.write(plain)
        return buf.getvalue()
    k = min(len(plain), 700)        # two members: `cat a.gz b.gz` is a valid gzip file of a ++ b
    return _gzip.compress(plain[:k]) + _gzip.compress(plain[k:])


def _header_clauses(ctx, fk, case, inp, dens, how=""):
    """origin and sampling rate of a read-back against what the density was given"""
    if fk == "mrc":
        oko = all(_close(v, Fraction(o), Fraction(1, 2 ** 23)) for v, o in zip(dens.origin, case["origin"])) and len(dens.origin) == 3
        ctx.spec(f"same origin (1 ulp float32){how}", inp, oko, {"got": np.asarray(dens.origin).tolist()}, key=_origin_key(case))
        oks = all(_close(v, Fraction(s), Fraction(1, 2 ** 22)) for v, s in zip(dens.sampling_rate, case["rate"])) and len(dens.sampling_rate) == 3
        ctx.spec(f"same sampling rate (float32){how}", inp, oks, {"got": np.asarray(dens.sampling_rate).tolist()}, key="mrc:sampling")
    elif fk == "h5":
        ctx.spec(f"same origin (exact){how}", inp, np.asarray(dens.origin).tolist() == case["origin"],
                 {"got": np.asarray(dens.origin).tolist()}, key="h5:origin")
        ctx.spec(f"same sampling rate (exact){how}", inp, np.asarray(dens.sampling_rate).tolist() == case["rate"],
                 {"got": np.asarray(dens.sampling_rate).tolist()}, key="h5:sampling")
    elif len(set(case["rate"])) == 1:
        s = case["rate"][0]
        oks = all(abs(float(v) - s) <= 0.001 + 1e-6 * s for v in dens.sampling_rate) and len(dens.sampling_rate) == 3
        ctx.spec(f"EM isotropic sampling to 0.001{how}", inp, oks, {"got": np.asarray(dens.sampling_rate).tolist()}, key="em:sampling")


def check_case(ctx, case, boxes=(), model=True, malformed=(), memmap_boxes=2):
    """Write one volume with the real code, compare bytes / read-backs with the model, evaluate the
    property's clauses on the real outputs.  `model=False` (search, replays of spec failures) evaluates the
    clauses only."""
    d = ctx.driver
    fk = _fmtkey(case)
    gz = case["gzip"]
    shape = list(case["shape"])
    nvox = int(np.prod(shape))
    dt = case.get("dtype", "float32")
    try:
        ref, a, path = _write(case)
    except Exception as e:  # noqa
        ctx.spec("writing a density succeeds", _inp(case), False, type(e).__name__, key=f"{fk}:write-raises")
        return
    raw = open(path, "rb").read()
    whole_file_gz = gz and fk != "h5"          # h5 "gzip" is an internal filter, the file itself is plain HDF5
    if whole_file_gz:
        okc = raw[:2] == b"\x1f\x8b"
        try:
            _gzip.decompress(raw)
        except Exception:  # noqa
            okc = False
        ctx.spec("gzip=True writes a gzip stream", _inp(case), okc, key=f"{fk}:gzip-stream")
        if not okc:
            return
    ext = int(case.get("ext_header", 0)) if fk == "mrc" else 0
    tr = case.get("transport") if fk != "h5" else None
    if ext or tr:
        plain = _gzip.decompress(raw) if whole_file_gz else raw
        if ext:
            # an MRC file as other programs write it: `nsymbt` bytes of extended header between header and data
            filler = bytes((37 * i + 11) % 251 for i in range(ext))
            plain = plain[:92] + np.array([ext], "<i4").tobytes() + plain[96:1024] + filler + plain[1024:]
            ctx.count("mrc:extended-header")
        old = path
        if tr == "gunzipped" and whole_file_gz:          # `gunzip file.gz`, then read the plain file
            path, raw, whole_file_gz = path[:-3], plain, False
        elif tr == "gz-renamed" and whole_file_gz:        # a compressed file under a name without ".gz": only the magic number tells
            path, raw = path[:-3], _gzip.compress(plain)
        elif tr and tr.startswith("regzip"):              # compressed by another tool than `to_file`
            path = path if path.endswith(".gz") else path + ".gz"
            raw, whole_file_gz = _regzip(plain, tr, os.path.basename(path)[:-3]), True
        else:
            raw = _gzip.compress(plain) if whole_file_gz else plain
        if old != path and os.path.exists(old):
            os.remove(old)
        with open(path, "wb") as fh:
            fh.write(raw)
        if tr:
            ctx.count("transport:" + tr)
    ctx.count(f"fmt:{case['fmt']}{'.gz' if gz else ''}")
    ctx.count(f"dtype:{dt}")
    ctx.count(f"layout:{case.get('layout', 'C')}")
    ctx.count(f"origin-form:{case.get('oform', 'tuple')}")
    ctx.count(f"rate-form:{case.get('rform', 'tuple')}")
    for k, v in case.get("kinds", {}).items():
        ctx.count(f"{k}:{v}")
    ctx.count("shape:" + ("distinct-extents" if len(set(shape)) == 3 else "repeated-extent"))

    # ---- gzip layer: sniffing agrees with the model, contract of the compressor holds
    content = raw
    if model:
        from tme.density import is_gzipped
        ctx.agree("is_gzipped", {"head": raw[:4]}, bool(is_gzipped(path)), d.call("c08.isGz", head=raw[:4].hex()))
    if whole_file_gz:
        content = _gzip.decompress(raw)
    elif fk != "h5" and raw[:2] == b"\x1f\x8b" and model:
        ctx.note(f"plain {fk} file starts with the gzip magic number (shape {shape})")

    # ---- byte level correspondence
    header = None
    wdt = "float32"
    if fk == "em":
        wdt, code, b = _em_written(ctx, dt)
    if model and fk == "em":
        enc = d.call("c08.emEncode", code=code, b=b, shape=shape, rateMilli=_rate_milli(case), data=_tokens(a, wdt))
        ctx.agree("_save_em bytes", _inp(case), content.hex(), enc)
        header = 512
        for mm in (False, True):
            m = d.call("c08.emDecode", file=content.hex(), memmap=mm)
            okr, r = _read(path, memmap=mm)
            if okr:
                impl = {"shape": list(r.data.shape), "data": _u32(r.data).reshape(-1).tolist(),
                        "rate": [round(float(x) * 1000) for x in r.sampling_rate]}
            else:
                impl = {"raised": True}
            if "raised" in m:
                mod = {"raised": True}
            else:
                mod = {"shape": m["shape"], "data": _model_tokens_as_f32bits(m["data"], wdt), "rate": [m["rateOut"]] * 3}
            ctx.agree("_load_em" + ("(memmap)" if mm else ""), _inp(case, memmap=mm), impl, mod)
    if model and fk == "mrc":
        w = np.frombuffer(content[:1024], dtype="<i4")
        fl = np.frombuffer(content[:1024], dtype="<f4")
        mf = d.call("c08.mrcFields", shape=shape, origin=[_frac(x) for x in case["origin"]], rate=[_frac(x) for x in case["rate"]])
        impl_i = {"nxyz": w[0:3].tolist(), "mode": int(w[3]), "mxyz": w[7:10].tolist(), "mapcrs": w[16:19].tolist(),
                  "nsymbt": int(w[23]), "map": content[208:212].hex()}
        mod_i = {"nxyz": mf["nxyz"], "mode": mf["mode"], "mxyz": mf["mxyz"], "mapcrs": mf["mapcrs"], "nsymbt": mf["nsymbt"] + ext,
                 "map": b"MAP ".hex()}
        ctx.agree("_save_mrc header words (int)", _inp(case), impl_i, mod_i)
        # start indices: rint(o/s) in float64 (float32 when both were given as float32 arrays) vs exact; skip the
        # neighbourhood of ties that the division error can reach
        q = [Fraction(o) / Fraction(s) for o, s in zip(case["origin"], case["rate"])][::-1]
        both32 = case.get("oform") == "f4" and case.get("rform") == "f4"
        win = [Fraction(1, 10 ** 9) + abs(x) / (2 ** 22 if both32 else 2 ** 50) for x in q]
        near_tie = any(abs((x % 1) - Fraction(1, 2)) < wn and (x % 1) != Fraction(1, 2) for x, wn in zip(q, win)) or \
            (both32 and any((x % 1) == Fraction(1, 2) for x in q))
        if near_tie or any(abs(x) >= 2 ** 31 - 1 for x in q):
            ctx.count("mrc:nstart-skipped")
        else:
            ctx.agree("_save_mrc nstart", _inp(case), w[4:7].tolist(), mf["nstart"])
        cm = [Fraction(n, dd) for n, dd in mf["cella"]]
        om = [Fraction(n, dd) for n, dd in mf["origin"]]
        okf = all(_close(v, r, Fraction(1, 2 ** 22)) for v, r in zip(fl[10:13], cm)) and \
            all(_close(v, r, Fraction(1, 2 ** 23)) for v, r in zip(fl[49:52], om))
        ctx.agree("_save_mrc header words (float32 of model rationals)", _inp(case),
                  {"cella": fl[10:13].tolist(), "origin": fl[49:52].tolist()} if not okf else "match",
                  {"cella": [float(x) for x in cm], "origin": [float(x) for x in om]} if not okf else "match")
        header = 1024 + int(w[23])
        pay = d.call("c08.payload", b=4, data=_u32(a).reshape(-1).tolist())
        ctx.agree("_save_mrc payload", _inp(case), content[header:].hex(), pay)
        # reader: the file's own header words (exact) through the model's mrcRead vs the real reader
        fields = {"nxyz": w[0:3].tolist(), "mode": int(w[3]), "nstart": w[4:7].tolist(), "mxyz": w[7:10].tolist(),
                  "cella": [_frac(x) for x in fl[10:13]], "mapcrs": w[16:19].tolist(),
                  "origin": [_frac(x) for x in fl[49:52]], "nsymbt": int(w[23])}
        mr = d.call("c08.mrcRead", **fields)
        okr, r = _read(path)
        if okr and "raised" not in mr:
            same = list(r.data.shape) == mr["shape"] and \
                all(_close(v, Fraction(n, dd), Fraction(1, 2 ** 22)) for v, (n, dd) in zip(r.origin, mr["origin"])) and \
                all(_close(v, Fraction(n, dd), Fraction(1, 2 ** 22)) for v, (n, dd) in zip(r.sampling_rate, mr["rate"]))
            ctx.agree("_load_mrc header", _inp(case), "match" if same else
                      {"shape": list(r.data.shape), "origin": r.origin.tolist(), "rate": r.sampling_rate.tolist()},
                      "match" if same else {k: mr[k] for k in ("shape", "origin", "rate")})
        else:
            ctx.agree("_load_mrc header", _inp(case), {"raised": not okr}, {"raised": "raised" in mr})
    if model and fk == "h5":
        ctx.agree("hdf5 signature", _inp(case), raw[:4].hex(), "89484446")

    # ---- property clauses on the real read-back (memory)
    okr, full = _read(path)
    if not okr:
        ctx.spec("reading back succeeds", _inp(case), False, full, key=f"{fk}:read-raises")
        return
    inp = _inp(case)
    ctx.spec("same shape and axis order", inp, list(full.data.shape) == shape, {"got": list(full.data.shape)}, key=f"{fk}:shape")
    ctx.spec("same voxel values as float32", inp, _same_bits(full.data, ref), key=f"{fk}:data")
    _header_clauses(ctx, fk, case, inp, full)
    if nvox > 1:
        ctx.distinct((case["fmt"], gz, tuple(shape), dt, case.get("layout", "C"), "full"))

    # ---- memory-mapped full read returns the same data, origin and sampling rate
    okm, mm = _read(path, memmap=True)
    if not okm:
        ctx.spec("memory-mapped read succeeds", _inp(case, memmap=True), False, mm, key=f"{fk}:memmap-raises")
    else:
        ctx.spec("memory-mapped read == in-memory read", _inp(case, memmap=True),
                 _same_bits(mm.data, np.asarray(full.data)), key=f"{fk}:memmap")
        _header_clauses(ctx, fk, case, _inp(case, memmap=True), mm, " (memory-mapped read)")
        ctx.count("memmap:" + type(mm.data).__name__)
        if nvox > 1:
            ctx.distinct((case["fmt"], gz, tuple(shape), dt, case.get("layout", "C"), "memmap"))

        # a density obtained from a memory-mapped read written again (what pipelines do with big tomograms)
        if case.get("regen"):
            p2 = _path(case)
            try:
                mm.to_file(p2, gzip=gz)
                ok2, again = _read(p2 + ".gz" if gz else p2)
                good = ok2 and _same_bits(again.data, ref)
                if good and fk != "em":
                    good = all(_close(v, Fraction(float(o)), Fraction(1, 2 ** 22)) for v, o in zip(again.origin, full.origin)) and \
                        all(_close(v, Fraction(float(o)), Fraction(1, 2 ** 21)) for v, o in zip(again.sampling_rate, full.sampling_rate))
                ctx.spec("read (memmap) -> write -> read returns the same density", _inp(case, memmap=True, regen=True), good,
                         None if ok2 else again, key=f"{fk}:second-generation")
            except Exception as e:  # noqa
                ctx.spec("read (memmap) -> write -> read returns the same density", _inp(case, memmap=True, regen=True), False,
                         type(e).__name__, key=f"{fk}:second-generation")
            ctx.count("second-generation")
            for q in (p2, p2 + ".gz"):
                if os.path.exists(q):
                    os.remove(q)

    # ---- sub-boxes
    nboxes = _norm_boxes(boxes, memmap_boxes)
    boxes = [b for b, _, _ in nboxes]
    plain_file = not whole_file_gz
    results = []
    for box, use_mm, form in nboxes:
        oks, sub = _read(path, box=box, memmap=use_mm, form=form)
        binp = _inp(case, box=box, memmap=use_mm, boxform=form)
        want = ref[tuple(slice(s, e) for s, e in box)]
        empty = want.size == 0
        skey = f"{fk}:subset"
        if fk == "mrc" and plain_file and shape[2] % 65536 == 35615:
            skey = "mrc:subset:nx-gzip-magic"
        if not oks:
            ctx.spec("sub-box read succeeds", binp, False, sub, key=skey + "-raises" if skey.endswith("subset") else skey)
            results.append({"raised": True})
        else:
            ctx.spec("sub-box == slice of the full volume", binp, _same_bits(sub.data, want),
                     {"got_shape": list(sub.data.shape)}, key=skey)
            results.append(_arr_res(sub))
            kind = "full" if want.shape == ref.shape else "single-voxel" if want.size == 1 else "empty" if empty else "proper"
            ctx.count("box:" + kind)
            ctx.count("box-bounds:" + form)
            if not empty and nvox > 1:
                ctx.distinct((case["fmt"], gz, tuple(shape), dt, case.get("layout", "C"), tuple(box), use_mm))
    if model and boxes:
        if header is not None:
            b = 4 if fk == "mrc" else np.dtype(wdt).itemsize
            ms = d.call("c08.subsets", file=content.hex(), header=header, shape=shape, b=b, boxes=boxes)
            for box, impl, m in zip(boxes, results, ms):
                mod = {"raised": True} if "raised" in m else \
                    {"shape": m["shape"], "data": _model_tokens_as_f32bits(m["data"], "float32" if fk == "mrc" else wdt)}
                ctx.agree(f"{fk} sub-box read", _inp(case, box=box), impl, mod)
        else:
            for box, impl in zip(boxes, results):
                m = d.call("c08.slice", shape=shape, data=_u32(ref).reshape(-1).tolist(), box=box)
                ctx.agree("h5 sub-box read", _inp(case, box=box), impl, {"shape": m["shape"], "data": m["data"]})

    # ---- malformed boxes: outcome (raised / data) as the model predicts; not part of the property
    if model and malformed and header is not None:
        malformed = [[tuple(x) for x in b] for b in malformed]
        b = 4 if fk == "mrc" else np.dtype(wdt).itemsize
        ms = d.call("c08.subsets", file=content.hex(), header=header, shape=shape, b=b, boxes=malformed, mrcpad=(fk == "mrc"))
        for box, m in zip(malformed, ms):
            oks, sub = _read(path, box=box)
            impl = _arr_res(sub) if oks else {"raised": True}
            mod = {"raised": True} if "raised" in m else \
                {"shape": m["shape"], "data": _model_tokens_as_f32bits(m["data"], "float32" if fk == "mrc" else wdt)}
            ctx.agree(f"{fk} malformed sub-box outcome", _inp(case, box=box), impl, mod)
            ctx.count("malformed:" + (m.get("raised", "ok") if isinstance(m, dict) else "ok"))
    del full, mm
    try:
        os.remove(path)
    except OSError:
        pass
    if isinstance(a, np.memmap):
        fn = a.filename
        del a
        try:
            os.remove(fn)
        except OSError:
            pass


# ------------------------------------------------------------------------------------------------
# obligations tied to the source
# ------------------------------------------------------------------------------------------------
def _tables_from_source():
    src = open(os.path.join(env.REPO, "tme", "density.py")).read()
    tree = ast.parse(src)
    save, load = None, None

    def np_name(node):
        # np.dtype(np.int8) | np.int8 | np.byte
        if isinstance(node, ast.Call):
            node = node.args[0]
        return np.dtype(getattr(np, node.attr)).name

    for node in ast.walk(tree):
        if isinstance(node, ast.Assign) and len(node.targets) == 1 and isinstance(node.targets[0], ast.Name) \
                and isinstance(node.value, ast.Dict):
            if node.targets[0].id == "DATA_TYPE_MAPPING":
                save = [[np_name(k), v.value] for k, v in zip(node.value.keys, node.value.values)]
            if node.targets[0].id == "DATA_TYPE_CODING":
                load = [[k.value, np_name(v)] for k, v in zip(node.value.keys, node.value.values)]
    return save, load


class _Probe:
    """records which writer / reader `to_file` / `from_file` select for a file name"""

    @staticmethod
    def make():
        from tme import Density
        calls = []

        class P(Density):
            def _save_mrc(self, filename, gzip=False):
                calls.append(("save", "mrc", filename))

            def _save_em(self, filename, gzip=False):
                calls.append(("save", "em", filename))

            def _save_hdf5(self, filename, gzip=False):
                calls.append(("save", "h5", filename))

            @classmethod
            def _load_mrc(cls, filename, subset=None, use_memmap=False):
                calls.append(("load", "mrc", filename))
                return np.zeros((1, 1, 1), np.float32), np.zeros(3), np.ones(3), {}

            @classmethod
            def _load_em(cls, filename, subset=None, use_memmap=False):
                calls.append(("load", "em", filename))
                return np.zeros((1, 1, 1), np.float32), np.zeros(3), np.ones(3), {}

            @classmethod
            def _load_hdf5(cls, filename, subset=None, use_memmap=False):
                calls.append(("load", "h5", filename))
                return np.zeros((1, 1, 1), np.float32), np.zeros(3), np.ones(3), {}
        return P, calls


def _dispatch(ctx):
    d = ctx.driver
    rng = ctx.rng("names")
    P, calls = _Probe.make()
    stems = ["vol", "a.b", "tomogram_01", "stem", "system", "them", "xh5", "map", "em", "h5", "x.gz", "theorem.em", "oh5.mrc",
             "volgz", "a.tgz", "b.em.tgz"]
    exts = ["", ".mrc", ".map", ".em", ".h5", ".mrc.gz", ".em.gz", ".h5.gz", ".rec", ".ccp4", ".EM", ".hdf5", ".gz", ".em.bak"]
    names = [s + e for s in stems for e in exts]
    names = [names[i] for i in rng.permutation(len(names))[:ctx.budget(120, len(names))]]
    reqs = [("c08.fmt", {"name": n, "gzip": g}) for n in names for g in (False, True)]
    ms = d.batch(reqs)
    for (_, args), m in zip(reqs, ms):
        del calls[:]
        P(np.zeros((1, 1, 1), np.float32)).to_file(args["name"], gzip=args["gzip"])
        sv = calls[-1]
        P.from_file(sv[2])
        ld = calls[-1]
        ctx.agree("to_file/from_file dispatch", args, {"final": sv[2], "save": sv[1], "load": ld[1]}, m)
        ctx.spec("reader and writer select the same format", args, sv[1] == ld[1], key="dispatch")
        ctx.count("dispatch:" + sv[1])
    ctx.distinct(("dispatch", len(names)))


def _obligations(ctx):
    save, load = _tables_from_source()
    t = ctx.driver.call("c08.tables")
    ctx.obligation("EM DATA_TYPE_MAPPING (source) == emSaveTable (model)", save == t["save"], {"source": save, "model": t["save"]})
    ctx.obligation("EM DATA_TYPE_CODING (source) == emLoadTable (model)", load == t["load"], {"source": load, "model": t["load"]})
    sizes = [[c, np.dtype(n).itemsize] for c, n in (load or [])]
    ctx.obligation("numpy item sizes == dtypeSize (model)", sizes == t["sizes"], {"numpy": sizes, "model": t["sizes"]})


# ------------------------------------------------------------------------------------------------
# MRC files as other programs write them (mrcfile itself): every data mode the reader accepts, big-endian files, extended
# headers, start indices without an origin, every MAPC/MAPR/MAPS order.  Target tomograms reach the sub-box reader this way.
# ------------------------------------------------------------------------------------------------
_MODES = {"int8": 0, "int16": 1, "float32": 2, "uint16": 6, "float16": 12}


def gen_foreign(rng, ctx=None):
    shape = [int(x) for x in rng.choice(np.arange(1, 7), size=3, replace=False)]
    if rng.random() < 0.15:
        shape[int(rng.integers(0, 3))] = int(rng.integers(20, 40))
    md = str(rng.choice(list(_MODES)))
    bits, _ = _gen_bits(rng, md, int(np.prod(shape)))
    crs = [1, 2, 3] if rng.random() < 0.35 else [int(x) for x in rng.permutation([1, 2, 3])]
    if rng.random() < 0.5:
        voxel = [float(x) for x in rng.choice([0.5, 1.0, 1.25, 2.0, 4.0], size=3)]
    else:
        voxel = [float(x) for x in rng.uniform(0.3, 25.0, size=3)]
    origin = [0.0, 0.0, 0.0] if rng.random() < 0.45 else [float(x) for x in rng.uniform(-200, 200, size=3)]
    nstart = [0, 0, 0] if rng.random() < 0.5 else [int(x) for x in rng.integers(-20, 21, size=3)]
    return {"foreign": True, "shape": shape, "bits": bits.tolist(), "mode": md, "crs": crs, "voxel": voxel, "origin_xyz": origin,
            "nstart_xyz": nstart, "ext": int(rng.choice([0, 0, 0, 4, 80, 1024])), "gzip": bool(rng.integers(0, 2)),
            "endian": ">" if rng.random() < 0.15 else "<"}


def _write_foreign(fc):
    """(array in file order, path, plain bytes)"""
    import mrcfile
    from mrcfile.dtypes import HEADER_DTYPE
    md = np.dtype(fc["mode"])
    a = np.array(fc["bits"], dtype=np.uint64).astype(_UINT[md.itemsize]).view(md).reshape(fc["shape"])
    _counter[0] += 1
    p = os.path.join(_dir(), f"f{_counter[0]}.mrc")
    with mrcfile.new(p, overwrite=True) as m:
        m.set_data(a)
        m.voxel_size = tuple(fc["voxel"])
        m.header.origin = tuple(fc["origin_xyz"])
        m.header.nxstart, m.header.nystart, m.header.nzstart = fc["nstart_xyz"]
        m.header.mapc, m.header.mapr, m.header.maps = fc["crs"]
    plain = open(p, "rb").read()
    ext = int(fc.get("ext", 0))
    if ext:
        filler = bytes((37 * i + 11) % 251 for i in range(ext))
        plain = plain[:92] + np.array([ext], "<i4").tobytes() + plain[96:1024] + filler + plain[1024:]
    if fc.get("endian", "<") == ">":
        hb = np.frombuffer(plain[:1024], HEADER_DTYPE).astype(HEADER_DTYPE.newbyteorder(">"))
        hb["machst"] = [0x11, 0x11, 0, 0]
        data = np.frombuffer(plain[1024 + ext:], dtype=md).astype(md.newbyteorder(">")).tobytes()
        plain = hb.tobytes() + plain[1024:1024 + ext] + data
    if ext or fc.get("endian", "<") == ">" or fc["gzip"]:
        os.remove(p)
        if fc["gzip"]:
            p += ".gz"
        with open(p, "wb") as fh:
            fh.write(_gzip.compress(plain) if fc["gzip"] else plain)
    return a, p, plain


def check_foreign(ctx, fc, nbox=6, model=True, rng=None, boxes=None):
    d = ctx.driver
    inp = dict(fc)
    a, path, plain = _write_foreign(fc)
    crs = [c - 1 for c in fc["crs"]]
    standard = crs == [0, 1, 2]
    ext = int(fc.get("ext", 0))
    le = fc.get("endian", "<") == "<"
    file_ref = a.astype(np.float32)
    ctx.count(f"foreign:mode-{fc['mode']}")
    ctx.count("foreign:crs-" + "".join(str(c) for c in fc["crs"]))
    ctx.count("foreign:" + ("little-endian" if le else "big-endian"))
    okr, full = _read(path)
    if not okr:
        ctx.spec("reading an MRC file written by mrcfile succeeds", inp, False, full, key="mrc:read-raises")
        return
    out_shape = [fc["shape"][i] for i in crs]
    if standard:
        ctx.spec("same shape and axis order", inp, list(full.data.shape) == fc["shape"], {"got": list(full.data.shape)}, key="mrc:shape")
        ctx.spec("same voxel values as float32", inp, _same_bits(full.data, file_ref), key="mrc:data")
        oks = all(_close(v, Fraction(s), Fraction(1, 2 ** 22)) for v, s in zip(full.sampling_rate, fc["voxel"][::-1]))
        ctx.spec("same sampling rate (float32)", inp, oks, {"got": np.asarray(full.sampling_rate).tolist()}, key="mrc:sampling")
        if any(abs(x) > 1e-8 for x in fc["origin_xyz"]):
            oko = all(_close(v, Fraction(o), Fraction(1, 2 ** 23)) for v, o in zip(full.origin, fc["origin_xyz"][::-1]))
            ctx.spec("same origin (1 ulp float32)", inp, oko, {"got": np.asarray(full.origin).tolist()}, key="mrc:origin")
        elif all(x == 0 for x in fc["origin_xyz"]):
            # old-style files: no origin words, the position is given by the start indices (z, y, x order like everything else)
            want = [Fraction(n) * Fraction(s) for n, s in zip(fc["nstart_xyz"][::-1], fc["voxel"][::-1])]
            oko = all(_close(v, o, Fraction(1, 2 ** 21)) for v, o in zip(full.origin, want))
            ctx.spec("origin from the start indices when the origin words are zero", inp, oko,
                     {"got": np.asarray(full.origin).tolist()}, key="mrc:origin:nstart")
    if model:
        if list(full.data.shape) == out_shape:
            m = d.call("c08.transpose", shape=fc["shape"], data=_u32(file_ref).reshape(-1).tolist(), perm=crs)
            ctx.agree("_load_mrc full read == transpose(file data, crs)", inp, _arr_res(full), {"shape": m["shape"], "data": m["data"]})
        else:
            ctx.agree("_load_mrc full read shape", inp, list(full.data.shape), out_shape)
        if standard:
            e = "<" if le else ">"
            w = np.frombuffer(plain[:1024], dtype=e + "i4")
            fl = np.frombuffer(plain[:1024], dtype=e + "f4")
            fields = {"nxyz": w[0:3].tolist(), "mode": int(w[3]), "nstart": w[4:7].tolist(), "mxyz": w[7:10].tolist(),
                      "cella": [_frac(x) for x in fl[10:13]], "mapcrs": w[16:19].tolist(),
                      "origin": [_frac(x) for x in fl[49:52]], "nsymbt": int(w[23])}
            mr = d.call("c08.mrcRead", **fields)
            same = "raised" not in mr and list(full.data.shape) == mr["shape"] and \
                all(_close(v, Fraction(n, dd), Fraction(1, 2 ** 22)) for v, (n, dd) in zip(full.origin, mr["origin"])) and \
                all(_close(v, Fraction(n, dd), Fraction(1, 2 ** 22)) for v, (n, dd) in zip(full.sampling_rate, mr["rate"]))
            ctx.agree("_load_mrc header (file written by mrcfile)", inp, "match" if same else
                      {"shape": list(full.data.shape), "origin": np.asarray(full.origin).tolist(), "rate": np.asarray(full.sampling_rate).tolist()},
                      "match" if same else mr)
        if not standard:
            # header read under a permuted MAPC/MAPR/MAPS: shape and origin go through the permutation, the sampling rate does not
            e = "<" if le else ">"
            w = np.frombuffer(plain[:1024], dtype=e + "i4")
            fl = np.frombuffer(plain[:1024], dtype=e + "f4")
            fields = {"nxyz": w[0:3].tolist(), "mode": int(w[3]), "nstart": w[4:7].tolist(), "mxyz": w[7:10].tolist(),
                      "cella": [_frac(x) for x in fl[10:13]], "mapcrs": w[16:19].tolist(),
                      "origin": [_frac(x) for x in fl[49:52]], "nsymbt": int(w[23])}
            mr = d.call("c08.mrcReadCrs", **fields)
            same = "raised" not in mr and list(full.data.shape) == mr["shape"] and \
                all(_close(v, Fraction(n, dd), Fraction(1, 2 ** 22)) for v, (n, dd) in zip(full.origin, mr["origin"])) and \
                all(_close(v, Fraction(n, dd), Fraction(1, 2 ** 22)) for v, (n, dd) in zip(full.sampling_rate, mr["rate"]))
            ctx.agree("_load_mrc header (permuted MAPC/MAPR/MAPS)", inp, "match" if same else
                      {"shape": list(full.data.shape), "origin": np.asarray(full.origin).tolist(), "rate": np.asarray(full.sampling_rate).tolist()},
                      "match" if same else mr)
    nvox = int(np.prod(fc["shape"]))
    okm, mm = _read(path, memmap=True)
    if not okm:
        ctx.spec("memory-mapped read succeeds", dict(inp, memmap=True), False, mm, key="mrc:memmap-raises")
    else:
        ctx.spec("memory-mapped read == in-memory read", dict(inp, memmap=True), _same_bits(mm.data, np.asarray(full.data)), key="mrc:memmap")
        same_hdr = np.array_equal(np.asarray(mm.origin), np.asarray(full.origin)) and \
            np.array_equal(np.asarray(mm.sampling_rate), np.asarray(full.sampling_rate))
        ctx.spec("memory-mapped read: origin and sampling rate of the in-memory read", dict(inp, memmap=True), same_hdr,
                 {"origin": np.asarray(mm.origin).tolist(), "rate": np.asarray(mm.sampling_rate).tolist()}, key="mrc:memmap-header")
        ctx.count("memmap:" + type(mm.data).__name__)
        if nvox > 1:
            ctx.distinct(("foreign", fc["mode"], fc["gzip"], tuple(fc["shape"]), tuple(fc["crs"]), fc.get("endian"), "memmap"))
    # sub-boxes are given in the axes of the volume the caller sees
    if boxes is None:
        boxes = _boxes_random(rng, list(full.data.shape), nbox, forms=True) if nvox <= 30 * 40 else []
        if nvox <= 24 and rng.random() < 0.3:
            boxes = [{"box": b, "memmap": False, "form": "int"} for b in _boxes_all(list(full.data.shape))]
    nboxes = _norm_boxes(boxes, 0)
    skey = "mrc:subset" if standard else "mrc:subset:crs"
    fdata = np.asarray(full.data)
    results = []
    for box, use_mm, form in nboxes:
        oks, sub = _read(path, box=box, memmap=use_mm, form=form)
        binp = dict(inp, box=box, memmap=use_mm, boxform=form)
        if not oks:
            ctx.spec("sub-box read succeeds", binp, False, sub, key=skey + "-raises")
            results.append({"raised": True})
            continue
        want = fdata[tuple(slice(s, e) for s, e in box)]
        ctx.spec("sub-box == slice of the full volume", binp, _same_bits(sub.data, want), {"got_shape": list(sub.data.shape)}, key=skey)
        results.append(_arr_res(sub))
        ctx.count("box:foreign")
        if want.size and nvox > 1:
            ctx.distinct(("foreign", fc["mode"], fc["gzip"], tuple(fc["shape"]), tuple(fc["crs"]), fc.get("endian"), tuple(box), use_mm))
    if model and le and nboxes:
        ms = d.call("c08.crsSubsets", file=plain.hex(), header=1024 + ext, shape=fc["shape"], b=np.dtype(fc["mode"]).itemsize,
                    crs=crs, boxes=[b for b, _, _ in nboxes])
        for (box, _, _), impl, m in zip(nboxes, results, ms):
            mod = {"raised": True} if "raised" in m else {"shape": m["shape"], "data": _model_tokens_as_f32bits(m["data"], fc["mode"])}
            ctx.agree("mrc sub-box read (any axis order)", dict(inp, box=box), impl, mod)
    del full, mm
    try:
        os.remove(path)
    except OSError:
        pass


# ------------------------------------------------------------------------------------------------
# deepen3: decisions of the readers / writers beyond well-formed boxes — the `subset` argument as python slices (None,
# negative, step, wrong length) per format, mrcfile's mode table, header read under a permuted MAPC/MAPR/MAPS, EM files
# with an unknown type code (read as float64), EM headers of non-3-D volumes.
# ------------------------------------------------------------------------------------------------
def _gen_slices(rng, shape):
    """mostly well-formed requests; each axis is perturbed with probability 1/4 (None, negative / out-of-range / reversed
    bounds, a step), and one request in six has another length than the volume has axes"""
    rank = 3 if rng.random() < 0.84 else int(rng.choice([1, 2, 4]))
    out = []
    for i in range(rank):
        n = shape[i] if i < len(shape) else 1
        if rng.random() < 0.2:
            a, b = 0, n
        else:
            a = int(rng.integers(0, n + 1)); b = int(rng.integers(a, n + 1))
        st = None if rng.random() < 0.7 else 1
        if rng.random() < 0.25:
            k = int(rng.integers(0, 4))
            if k == 0:
                a = int(rng.integers(-n - 2, n + 3)); b = int(rng.integers(-n - 2, n + 3))
            elif k == 1:
                st = int(rng.choice([2, 3, 0, -1, 2]))
            elif k == 2:
                a = None if rng.random() < 0.5 else a
                b = None if a is not None or rng.random() < 0.5 else b
            else:
                a, b = b, a
        out.append([a, b, st])
    return out


def _slice_requests(ctx, rng, nvol, nreq):
    from tme import Density
    d = ctx.driver
    for v in range(nvol):
        fmt = EXTS[v % len(EXTS)]
        gz = bool((v // len(EXTS)) % 2)
        shape = [int(x) for x in rng.choice(np.arange(1, 6), size=3, replace=False)]
        bits = _finite_bits(rng, int(np.prod(shape)))
        a = bits.astype(np.uint32).view(np.float32).reshape(shape)
        _counter[0] += 1
        p = os.path.join(_dir(), f"s{_counter[0]}.{fmt}")
        final = _to_file(Density(a, origin=(0, 0, 0), sampling_rate=(1, 1, 1)), p, gz)
        raw = open(final, "rb").read()
        plain = _gzip.decompress(raw) if raw[:2] == b"\x1f\x8b" else raw
        reqs = [_gen_slices(rng, shape) for _ in range(nreq)]
        fk = "mrc" if fmt in ("mrc", "map") else fmt
        if fk != "h5":
            for want_mm in (True, False):
                got = Density.from_file(final, use_memmap=want_mm)
                ctx.agree("use_memmap is granted iff asked for and the file does not carry the gzip magic number",
                          {"slices": True, "fmt": fmt, "gzip": gz, "shape": shape, "use_memmap": want_mm},
                          isinstance(got.data, np.memmap), d.call("c08.effMemmap", head=raw[:4].hex(), memmap=want_mm))
                del got
        if fk == "h5":
            ms = d.call("c08.sliceReq", fmt="h5", shape=shape, data=_u32(a).reshape(-1).tolist(), reqs=reqs)
        else:
            ms = d.call("c08.sliceReq", fmt=fk, file=plain.hex(), header=512 if fk == "em" else 1024, shape=shape, b=4, reqs=reqs)
        for req, m in zip(reqs, ms):
            sub = tuple(slice(*r) for r in req)
            try:
                r = Density.from_file(final, subset=sub)
                impl = _arr_res(r)
            except Exception:  # noqa
                impl = {"raised": True}
            mod = {"raised": True} if "raised" in m else {"shape": m["shape"], "data": m["data"]}
            inp = {"slices": True, "fmt": fmt, "gzip": gz, "shape": shape, "bits": bits.tolist(), "subset": req}
            ctx.agree(f"{fk} subset given as python slices (None / negative / step / length)", inp, impl, mod)
            canonical = len(req) == 3 and all(x[0] is not None and x[1] is not None and 0 <= x[0] <= x[1] <= n and x[2] in (None, 1)
                                              for x, n in zip(req, shape))
            if canonical:
                want = a[sub]
                ok = "raised" not in impl and impl["shape"] == list(want.shape) and impl["data"] == _u32(want).reshape(-1).tolist()
                ctx.spec("sub-box == slice of the full volume", inp, ok, impl if "raised" in impl else {"got_shape": impl["shape"]},
                         key=f"{fk}:subset")
            ctx.count(f"slices:{fk}:" + ("raised" if "raised" in impl else "canonical" if canonical else "accepted-noncanonical"))
            if "raised" not in impl and int(np.prod(impl["shape"])) > 0:
                ctx.distinct(("slices", fmt, gz, tuple(shape), json.dumps(req)))
        try:
            os.remove(final)
        except OSError:
            pass


def _mrc_modes(ctx):
    from mrcfile import utils
    modes = list(range(0, 17)) + [101]
    names = ["int8", "int16", "int32", "int64", "uint8", "uint16", "uint32", "float16", "float32", "float64", "complex64", "complex128", "bool"]
    m = ctx.driver.call("c08.mrcModes", modes=modes, dtypes=names)
    impl_m = []
    for k in modes:
        try:
            dt = np.dtype(utils.dtype_from_mode(k))
            impl_m.append([k, dt.name, dt.itemsize])
        except ValueError:
            impl_m.append([k, None, None])
    impl_d = []
    for nme in names:
        try:
            impl_d.append([nme, int(utils.mode_from_dtype(np.dtype(nme)))])
        except ValueError:
            impl_d.append([nme, None])
    ctx.obligation("mrcfile dtype_from_mode == mrcModeTable (model)", impl_m == m["modes"], {"mrcfile": impl_m, "model": m["modes"]})
    ctx.obligation("mrcfile mode_from_dtype == mrcModeOfDtype (model)", impl_d == m["dtypes"], {"mrcfile": impl_d, "model": m["dtypes"]})


def _em_unknown_code(ctx, rng, nvol, nbox):
    """an EM file whose type code is not in DATA_TYPE_CODING: `_load_em` reads it as float64 (np.dtype(None))"""
    from tme import Density
    d = ctx.driver
    for v in range(nvol):
        shape = [int(x) for x in rng.choice(np.arange(1, 6), size=3, replace=False)]
        n = int(np.prod(shape))
        a = rng.standard_normal(n).reshape(shape)     # float64 on disk: 8-byte items, so no read runs past the end
        gz = bool(v % 2)
        _counter[0] += 1
        p = os.path.join(_dir(), f"u{_counter[0]}.em")
        final = _to_file(Density(a, origin=(0, 0, 0), sampling_rate=(1, 1, 1)), p, gz)
        raw = open(final, "rb").read()
        plain = bytearray(_gzip.decompress(raw) if gz else raw)
        code = int(rng.choice([0, 4, 7, 10, 11, 64, 127, 128, 200, 255]))
        plain[3] = code
        with open(final, "wb") as fh:
            fh.write(_gzip.compress(bytes(plain)) if gz else bytes(plain))
        boxes = [[list(x) for x in b] for b in _boxes_random(rng, shape, nbox)]
        boxes = [b for b in boxes if [e - s for s, e in b] != shape]
        if not boxes:
            continue
        m = d.call("c08.emSubsetAny", file=bytes(plain).hex(), boxes=boxes)
        for box, mr in zip(boxes, m["res"]):
            try:
                r = Density.from_file(final, subset=tuple(slice(s, e) for s, e in box))
                impl = {"shape": list(r.data.shape), "dtype": r.data.dtype.name, "itemsize": r.data.dtype.itemsize,
                        "data": np.ascontiguousarray(r.data).view(np.uint64).reshape(-1).tolist() if r.data.dtype.itemsize == 8 else None}
            except Exception:  # noqa
                impl = {"raised": True}
            mod = {"raised": True} if "raised" in mr else {"shape": mr["shape"], "dtype": "float64", "itemsize": m["b"], "data": mr["data"]}
            ctx.agree("_load_em sub-box of a file with an unknown type code (read as float64)",
                      {"em_unknown_code": code, "shape": shape, "gzip": gz, "box": box}, impl, mod)
            ctx.count("em-unknown-code")
        try:
            os.remove(final)
        except OSError:
            pass


def _em_header_rank(ctx, rng):
    from tme import Density
    for shape in ([5], [2, 3], [2, 3, 4], [2, 1, 3, 2], [int(rng.integers(1, 5)) for _ in range(int(rng.integers(1, 6)))]):
        a = np.arange(int(np.prod(shape)), dtype=np.float32).reshape(shape)
        _counter[0] += 1
        p = os.path.join(_dir(), f"r{_counter[0]}.em")
        Density(a, origin=(0,) * len(shape), sampling_rate=(1,) * len(shape)).to_file(p)
        size = os.path.getsize(p)
        head = open(p, "rb").read(4 + 4 * len(shape))
        m = ctx.driver.call("c08.emHeaderLen", shape=shape)
        ctx.agree("_save_em header length for a volume of any rank", {"em_rank": len(shape), "shape": shape},
                  {"len": size - a.nbytes, "dims": np.frombuffer(head[4:], "<i4").tolist()},
                  {"len": m["len"] if m["len"] == m["written"] else [m["len"], m["written"]], "dims": shape[::-1]})
        os.remove(p)


def _truncated(ctx, rng, nvol, nbox):
    """files cut short inside the payload: the row loop's short reads (frombuffer refuses a ragged byte count, a row of
    exactly one item is broadcast, any other count is refused), compared with `readSubsetExact`; the same boxes on the
    complete file must be read identically by the exact and the plain model (theorem readSubsetExact_eq_readSubset)"""
    from tme import Density
    d = ctx.driver
    for v in range(nvol):
        fmt = ("mrc", "em")[v % 2]
        gz = bool((v // 2) % 2)
        shape = [int(x) for x in rng.choice(np.arange(1, 6), size=3, replace=False)]
        n = int(np.prod(shape))
        dt = str(rng.choice(["float32", "float32", "int16", "int8"])) if fmt == "em" else "float32"
        b = np.dtype(dt).itemsize
        if dt == "float32":
            a = _finite_bits(rng, n).astype(np.uint32).view(np.float32).reshape(shape)
        else:
            a = rng.integers(-100, 100, size=n).astype(dt).reshape(shape)
        _counter[0] += 1
        p = os.path.join(_dir(), f"t{_counter[0]}.{fmt}")
        final = _to_file(Density(a, origin=(0, 0, 0), sampling_rate=(1, 1, 1)), p, gz)
        raw = open(final, "rb").read()
        plain = _gzip.decompress(raw) if gz else raw
        header = len(plain) - n * b
        r = rng.random()
        if r < 0.45:     # item-aligned cut
            cut = header + b * int(rng.integers(0, n))
        elif r < 0.8:
            cut = header + int(rng.integers(0, n * b))
        else:
            cut = len(plain)
        short = plain[:cut]
        with open(final, "wb") as fh:
            fh.write(_gzip.compress(short) if gz else short)
        boxes = [[list(x) for x in bx] for bx in _boxes_random(rng, shape, nbox)]
        # rows that end at the cut, so that single-item reads occur
        k = max(0, (cut - header) // b - 1)
        z, rem = divmod(min(k, n - 1), shape[1] * shape[2])
        y, x = divmod(rem, shape[2])
        for x0 in range(0, x + 1):
            boxes.append([[z, z + 1], [y, y + 1], [x0, shape[2]]])
        boxes = [bx for bx in boxes if [e - s for s, e in bx] != shape]
        if not boxes:
            continue
        ms = d.call("c08.subsets", file=short.hex(), header=header, shape=shape, b=b, boxes=boxes, exact=True)
        if cut == len(plain):
            ms2 = d.call("c08.subsets", file=short.hex(), header=header, shape=shape, b=b, boxes=boxes)
            ctx.obligation("exact and plain sub-box model coincide on a complete file", ms == ms2, {"shape": shape, "boxes": boxes})
        for box, m in zip(boxes, ms):
            try:
                rd = Density.from_file(final, subset=tuple(slice(s, e) for s, e in box))
                impl = {"shape": list(rd.data.shape), "data": _tokens(rd.data, rd.data.dtype)}
            except Exception:  # noqa
                impl = {"raised": True}
            mod = {"raised": True} if "raised" in m else {"shape": m["shape"], "data": m["data"]}
            ctx.agree("sub-box read of a truncated file (short reads as coded)",
                      {"truncated": cut - header, "fmt": fmt, "gzip": gz, "dtype": dt, "shape": shape, "box": box,
                       "values": _tokens(a, dt)}, impl, mod)
            ctx.count("truncated:" + ("raised" if "raised" in impl else "ok"))
        try:
            os.remove(final)
        except OSError:
            pass


def _em_rates(ctx, rng, n):
    """the EM sampling-rate word for dyadic rates (rate * 1000 is exact in floating point, so int() is the truncation of
    the exact product): word written, rate read back (incl. 0 and rates below 0.001 -> 1 A, negative rates)"""
    from tme import Density
    rates = [Fraction(0), Fraction(1, 2048), Fraction(1, 1024), Fraction(-5, 2), Fraction(5, 2), Fraction(2469, 2048), Fraction(-1, 4096)]
    while len(rates) < n:
        e = int(rng.integers(0, 13))
        k = int(rng.integers(-40 * 2 ** e, 4000 * 2 ** e)) if rng.random() < 0.8 else int(rng.integers(-64, 64))
        rates.append(Fraction(k, 2 ** e))
    ms = ctx.driver.call("c08.emRate", rates=[[q.numerator, q.denominator] for q in rates])
    a = np.arange(6, dtype=np.float32).reshape(1, 2, 3)
    p = os.path.join(_dir(), "rate.em")
    for q, m in zip(rates, ms):
        r = float(q)
        inp = {"em_rate": [q.numerator, q.denominator]}
        if not -2 ** 31 < int(r * 1000) < 2 ** 31:
            continue
        Density(a, origin=(0, 0, 0), sampling_rate=(r, r, r)).to_file(p)
        word = int(np.frombuffer(open(p, "rb").read()[120:124], "<i4")[0])
        back = Density.from_file(p).sampling_rate
        want = Fraction(*m["read"])
        ctx.agree("_save_em sampling word / _load_em sampling rate (exact rates)", inp,
                  {"milli": word, "read": [float(x) for x in np.asarray(back)]},
                  {"milli": m["milli"], "read": [float(np.float32(float(want)))] * 3})
        if q >= Fraction(1, 1000):
            ctx.spec("EM sampling rate to the precision of the format (0.001 A)", inp,
                     all(0 <= q - Fraction(float(x)) < Fraction(1, 1000) + Fraction(1, 2 ** 20) * q for x in np.asarray(back)),
                     {"got": [float(x) for x in np.asarray(back)]}, key="em:sampling")
        ctx.count("em-rate:" + ("zero-word" if word == 0 else "negative" if word < 0 else "positive"))
    os.remove(p)


def _deepen3(ctx):
    _em_rates(ctx, ctx.rng("em-rates"), ctx.budget(60, 400))
    _truncated(ctx, ctx.rng("truncated"), ctx.budget(24, 160), ctx.budget(4, 8))
    _mrc_modes(ctx)
    _slice_requests(ctx, ctx.rng("slices"), ctx.budget(16, 96), ctx.budget(14, 24))
    _em_unknown_code(ctx, ctx.rng("em-unknown-code"), ctx.budget(10, 60), ctx.budget(5, 8))
    _em_header_rank(ctx, ctx.rng("em-rank"))


# ------------------------------------------------------------------------------------------------
# sessions: several writes and reads in one process.  Each is described by a small record (seed + parameters) from which the
# volumes are regenerated, so a failing step can be replayed.
# ------------------------------------------------------------------------------------------------
def _readback_clauses(ctx, fk, exp, inp, dens, ref, how):
    ctx.spec(f"same shape and axis order{how}", inp, list(dens.data.shape) == list(ref.shape), {"got": list(dens.data.shape)}, key=f"{fk}:shape")
    ctx.spec(f"same voxel values as float32{how}", inp, _same_bits(dens.data, ref), key=f"{fk}:data")
    _header_clauses(ctx, fk, exp, inp, dens, how)


def _sess_state(rng, shape):
    v = (rng.standard_normal(shape) * 10.0 ** int(rng.integers(-3, 3))).astype(np.float32)
    o = [float(x) for x in rng.integers(-40, 41, size=3) * 0.25]
    r = [float(rng.choice([0.5, 0.75, 1.5, 2.0, 3.25, 6.5]))] * 3
    return v, o, r


def session_same_object(ctx, inp):
    """one Density object written to every format in turn, changed in place, written again to the same paths, then given
    another volume: every file must hold what the object held when it was written"""
    from tme import Density
    rng = np.random.default_rng(inp["seed"])
    shape = tuple(inp["shape"])
    _counter[0] += 1
    d0 = _dir(f"obj{_counter[0]}")
    # the last volume is smaller than the files already on disk: nothing of the longer old content may survive
    small = tuple(max(1, n - 1) if i == 0 else n for i, n in enumerate(shape[::-1]))
    states = [_sess_state(rng, shape), _sess_state(rng, shape), _sess_state(rng, small)]
    dens = None
    for ph, (v, o, r) in enumerate(states):
        phase = ("first", "after a change in place", "after the volume was replaced")[ph]
        if ph == 0:
            dens = Density(v.copy(), origin=tuple(o), sampling_rate=tuple(r))
        elif ph == 1:
            dens.data[...] = v
            dens.origin[...] = o
            dens.sampling_rate[...] = r
        else:
            dens.data, dens.origin, dens.sampling_rate = v.copy(), np.array(o), np.array(r)
        for k, (fmt, gz) in enumerate(inp["order"]):
            fk = "mrc" if fmt in ("mrc", "map") else fmt
            step = dict(inp, step=[ph, k])
            try:
                final = _to_file(dens, os.path.join(d0, f"obj_{k}.{fmt}"), bool(gz))
            except Exception as e:  # noqa
                ctx.spec("writing a density succeeds", step, False, type(e).__name__, key=f"{fk}:write-raises")
                continue
            okr, back = _read(final, memmap=bool((k + ph) % 2))
            if not okr:
                ctx.spec("reading back succeeds", step, False, back, key=f"{fk}:read-raises")
                continue
            _readback_clauses(ctx, fk, {"origin": o, "rate": r}, step, back, v, f" ({phase}; one object written to several files)")
            del back
            ctx.count("session:same-object-writes")
    ctx.distinct(("session-same-object", tuple(shape), tuple(tuple(x) for x in inp["order"])))


_NAME_PAIRS = {"length": ("vol", "vol2"), "case": ("vol", "Vol"), "dir": (os.path.join("a", "vol"), os.path.join("b", "vol")),
               "digits": ("t_1", "t_10"), "prefix": ("xvol", "vol")}


def session_two_files(ctx, inp):
    """two files of one format and shape whose names differ only by length / case / directory, with different content,
    read alternately (full, sub-box, memory-mapped): every read returns the content of the file that was named"""
    from tme import Density
    rng = np.random.default_rng(inp["seed"])
    shape = tuple(inp["shape"])
    fmt, gz = inp["fmt"], bool(inp["gzip"])
    fk = "mrc" if fmt in ("mrc", "map") else fmt
    _counter[0] += 1
    d0 = _dir(f"pair{_counter[0]}")
    files = []
    for stem in _NAME_PAIRS[inp["names"]]:
        v, o, r = _sess_state(rng, shape)
        p = os.path.join(d0, f"{stem}.{fmt}")
        os.makedirs(os.path.dirname(p), exist_ok=True)
        final = _to_file(Density(v, origin=tuple(o), sampling_rate=tuple(r)), p, gz)
        files.append((final, v, o, r))
    box = [(int(rng.integers(0, n)), n) for n in shape]
    box = [(s, int(rng.integers(s + 1, n + 1))) for (s, n) in box]
    plan = [(0, "full"), (1, "full"), (0, "sub"), (1, "sub"), (0, "memmap"), (1, "memmap"), (0, "sub-memmap"), (1, "sub"),
            (1, "full"), (0, "full")]
    for k, (which, mode) in enumerate(plan):
        final, v, o, r = files[which]
        step = dict(inp, step=k, which=which, mode=mode, box=box)
        sub = mode.startswith("sub")
        okr, back = _read(final, box=box if sub else None, memmap=mode.endswith("memmap"))
        how = f" (file {'AB'[which]} of two files named alike, read {mode})"
        if not okr:
            ctx.spec("reading back succeeds", step, False, back, key=f"{fk}:read-raises")
            continue
        if sub:
            ctx.spec("sub-box == slice of the full volume" + how, step, _same_bits(back.data, v[tuple(slice(s, e) for s, e in box)]),
                     {"got_shape": list(back.data.shape)}, key=f"{fk}:subset")
        else:
            _readback_clauses(ctx, fk, {"origin": o, "rate": r}, step, back, v, how)
        del back
        ctx.count("session:two-files-reads")
    ctx.distinct(("session-two-files", fmt, gz, inp["names"], tuple(shape)))


def session_chain(ctx, inp):
    """write (format 1) -> read (in memory / memory-mapped / sub-box) -> write (format 2) -> read: the values survive, and
    so do origin and sampling rate where both formats keep them"""
    from tme import Density
    rng = np.random.default_rng(inp["seed"])
    shape = tuple(inp["shape"])
    f1, g1, f2, g2, mode = inp["fmt1"], bool(inp["gzip1"]), inp["fmt2"], bool(inp["gzip2"]), inp["mode"]
    k1, k2 = ("mrc" if f in ("mrc", "map") else f for f in (f1, f2))
    dt = inp.get("dtype", "float32")
    v, o, r = _sess_state(rng, shape)
    if dt != "float32":
        v = np.round(np.clip(v, -100, 100)).astype(dt)
    ref = v.astype(np.float32)
    _counter[0] += 1
    d0 = _dir(f"chain{_counter[0]}")
    key = f"chain:{k1}->{k2}"
    p1 = _to_file(Density(v, origin=tuple(o), sampling_rate=tuple(r)), os.path.join(d0, f"first.{f1}"), g1)
    box = None
    if mode.startswith("sub"):
        box = [(int(rng.integers(0, n)), n) for n in shape]
        box = [(s, int(rng.integers(s + 1, n + 1))) for (s, n) in box]
        ref = ref[tuple(slice(s, e) for s, e in box)]
    step = dict(inp, box=box)
    okr, mid = _read(p1, box=box, memmap=mode.endswith("memmap"))
    if not okr:
        ctx.spec("reading back succeeds", step, False, mid, key=f"{k1}:read-raises")
        return
    try:
        p2 = _to_file(mid, os.path.join(d0, f"second.{f2}"), g2)
    except Exception as e:  # noqa
        ctx.spec("a density that was read from a file can be written", step, False, type(e).__name__, key=key)
        return
    okr, back = _read(p2)
    if not okr:
        ctx.spec("read -> write -> read returns the same density", step, False, back, key=key)
        return
    good = _same_bits(back.data, ref)
    detail = {"got_shape": list(back.data.shape)}
    if good and "em" not in (k1, k2):
        good = all(_close(x, Fraction(y), Fraction(1, 2 ** 22)) for x, y in zip(back.origin, o)) and \
            all(_close(x, Fraction(y), Fraction(1, 2 ** 21)) for x, y in zip(back.sampling_rate, r))
        detail = {"origin": np.asarray(back.origin).tolist(), "rate": np.asarray(back.sampling_rate).tolist()}
    elif good:
        good = all(abs(float(x) - r[0]) <= 0.002 + 1e-6 * r[0] for x in back.sampling_rate)
        detail = {"rate": np.asarray(back.sampling_rate).tolist()}
    ctx.spec("read -> write -> read returns the same density", step, good, detail, key=key)
    ctx.count(f"session:chain-{mode}")
    ctx.distinct(("session-chain", f1, g1, f2, g2, mode, dt, tuple(shape)))
    del mid, back


def big_sparse(ctx, inp):
    """a file beyond 2 GiB / 4 GiB (sparse on disk: only a few rows are written): byte offsets of sub-boxes do not fit 32 bits"""
    from tme import Density
    nz, ny, nx = inp["shape"]
    fmt = inp["fmt"]
    dt = np.dtype(inp.get("dtype", "float32"))
    _counter[0] += 1
    p = os.path.join(_dir(), f"sparse{_counter[0]}.{fmt}")
    rows = [tuple(x) for x in inp["rows"]]          # (z, y, x0): five consecutive voxels 1..5 planted there
    try:
        if fmt == "em":
            tiny = os.path.join(_dir(), f"sparse{_counter[0]}_hdr.em")
            Density(np.zeros((1, 1, 1), dt), sampling_rate=(2.0, 2.0, 2.0)).to_file(tiny)
            hdr = bytearray(open(tiny, "rb").read()[:512])
            os.remove(tiny)
            hdr[4:16] = np.array([nx, ny, nz], "<i4").tobytes()
            header = 512
            with open(p, "wb") as fh:
                fh.write(bytes(hdr))
                fh.truncate(header + nz * ny * nx * dt.itemsize)
        else:
            import mrcfile
            with mrcfile.new_mmap(p, shape=(nz, ny, nx), mrc_mode=_MODES[dt.name], overwrite=True) as m:
                m.voxel_size = (2.0, 2.0, 2.0)
            header = 1024
        with open(p, "r+b") as fh:
            for (z, y, x0) in rows:
                fh.seek(header + ((z * ny + y) * nx + x0) * dt.itemsize)
                fh.write(np.arange(1, 6).astype(dt).tobytes())
    except OSError as e:   # no room / no sparse files on the scratch file system: nothing to report about pyTME
        ctx.note(f"sparse {fmt} file of {nz * ny * nx * dt.itemsize} bytes could not be created: {e}")
        if os.path.exists(p):
            os.remove(p)
        return
    ctx.count("sparse:" + fmt)
    for i, (z, y, x0) in enumerate(rows):
        lo = max(0, x0 - 2)
        box = [(z, z + 1), (max(0, y - 1), min(ny, y + 2)), (lo, min(nx, x0 + 8))]
        want = np.zeros([e - s for s, e in box], np.float32)
        want[0, y - box[1][0], x0 - lo:x0 - lo + 5] = np.arange(1, 6)
        form = ("int", "np64", "np32")[i % 3]
        step = dict(inp, box=box, boxform=form, byte_offset=header + ((z * ny + y) * nx + x0) * dt.itemsize)
        oks, sub = _read(p, box=box, form=form)
        if not oks:
            ctx.spec("sub-box read succeeds", step, False, sub, key=f"{fmt}:subset-raises")
            continue
        ctx.spec("sub-box == slice of the full volume", step, _same_bits(sub.data, want),
                 {"got": np.asarray(sub.data, dtype=np.float32).ravel().tolist()[:40]}, key=f"{fmt}:subset")
        ctx.distinct(("sparse", fmt, dt.name, tuple(box)))
    okm, mm = _read(p, memmap=True)
    if not okm:
        ctx.spec("memory-mapped read succeeds", dict(inp, memmap=True), False, mm, key=f"{fmt}:memmap-raises")
    else:
        z, y, x0 = rows[-1]
        got = np.asarray(mm.data[z, y, x0:x0 + 5], dtype=np.float32)
        ctx.spec("memory-mapped read == in-memory read", dict(inp, memmap=True, at=[z, y, x0]),
                 list(mm.data.shape) == [nz, ny, nx] and np.array_equal(got, np.arange(1, 6, dtype=np.float32)), {"got": got.tolist()},
                 key=f"{fmt}:memmap")
        del mm
    os.remove(p)


# ------------------------------------------------------------------------------------------------
# fixed cases: pre-findings / known findings / regression of the fix: commits
# ------------------------------------------------------------------------------------------------
def _fixed_cases(ctx, model=True):
    rng = ctx.rng("fixed")
    base = {"bits": rng.standard_normal(24).astype(np.float32).view(np.uint32).tolist(), "shape": [2, 3, 4],
            "dtype": "float32", "layout": "C", "origin": [1.5, -2.25, 3.0], "rate": [2.0, 2.0, 2.0]}
    for fmt in EXTS:
        for gz in (False, True):
            check_case(ctx, dict(base, fmt=fmt, gzip=gz), boxes=[[(0, 1), (1, 3), (1, 4)], [(0, 2), (0, 3), (0, 4)]], model=model)
    # first dimension byte equal to the first gzip magic byte only (nx = 31 = 0x1f): still a plain file
    b31 = dict(base, shape=[2, 3, 31], bits=rng.standard_normal(186).astype(np.float32).view(np.uint32).tolist())
    for fmt in ("mrc", "em"):
        check_case(ctx, dict(b31, fmt=fmt, gzip=False), boxes=[[(0, 2), (1, 2), (3, 30)], [(1, 2), (0, 3), (30, 31)]], model=model)
    # full-volume shortcut must be exact: 100001 voxels along x, ask for the first 100000
    big = {"shape": [1, 1, 100001], "dtype": "float32", "layout": "C", "origin": [0.0, 0.0, 0.0], "rate": [1.0, 1.0, 1.0]}
    for fmt in ("mrc", "em"):
        c = dict(big, fmt=fmt, gzip=False)
        check_case(ctx, c, boxes=[[(0, 1), (0, 1), (0, 100000)], [(0, 1), (0, 1), (1, 100001)]], model=False, memmap_boxes=0)
    if model:
        m = ctx.driver.call("c08.shortcut", box=[[0, 1], [0, 1], [0, 100000]], shape=[1, 1, 100001])
        ctx.agree("full-box shortcut is exact", {"shape": [1, 1, 100001]}, {"exact": False}, {"exact": m["exact"]})
    # known: an uncompressed MRC whose nx ends in the gzip magic number is taken for gzip by is_gzipped
    magic = {"shape": [1, 1, 35615], "dtype": "float32", "layout": "C", "origin": [0.0, 0.0, 0.0], "rate": [1.0, 1.0, 1.0],
             "fmt": "mrc", "gzip": False}
    check_case(ctx, magic, boxes=[[(0, 1), (0, 1), (5, 9)]], model=False, memmap_boxes=0)
    # known: origin within 1e-8 of zero is replaced by start*rate
    tiny = dict(base, origin=[5.04e-9, 0.0, 0.0], rate=[1e-10, 1e-10, 1e-10], fmt="mrc", gzip=False)
    check_case(ctx, tiny, model=False)
    # fixed: dtypes without an EM type code were dumped raw under type code 5 (float32)
    for dt in ("uint8", "uint16", "float16", "bool", "int64", "float32-be"):
        n = 24
        bits = _gen_bits(rng, dt, n)[0].tolist()
        check_case(ctx, dict(base, dtype=dt, bits=bits, fmt="em", gzip=(dt == "uint16")), boxes=[[(0, 1), (1, 3), (1, 4)]], model=model)
    # fixed: integer EM files read memory-mapped / by sub-box reported their sampling rate in the integer dtype (2.5 -> 2)
    for dt in ("int8", "int16", "int32"):
        bits = _gen_bits(rng, dt, 24)[0].tolist()
        check_case(ctx, dict(base, dtype=dt, bits=bits, fmt="em", gzip=False, rate=[2.5, 2.5, 2.5]), boxes=[[(0, 1), (1, 3), (1, 4)]],
                   model=model)
    # fixed: sub-boxes of MRC files whose MAPC/MAPR/MAPS is a cyclic permutation addressed the wrong axes
    for crs in ([2, 3, 1], [3, 1, 2], [1, 3, 2]):
        fc = {"foreign": True, "shape": [2, 3, 4], "bits": _gen_bits(rng, "float32", 24)[0].tolist(), "mode": "float32", "crs": crs,
              "voxel": [1.0, 2.0, 3.0], "origin_xyz": [10.0, 20.0, 30.0], "nstart_xyz": [0, 0, 0], "ext": 0, "gzip": False, "endian": "<"}
        out = [fc["shape"][c - 1] for c in crs]
        check_foreign(ctx, fc, model=model, boxes=[[(0, 1), (1, 2), (0, 2)], [(0, out[0]), (0, 1)], [(1, 2)]] +
                      ([] if not model else _boxes_all(out)[::7]))


def _wide_cases(ctx, model=False):
    """extents that need a second / third byte in headers and offsets, volumes larger than the buffers of the I/O layers
    (described by a seed, compared clause by clause), files beyond 2 and 4 GiB"""
    rng = ctx.rng("wide")
    shapes = [[1, 2, 65537], [65537, 1, 2], [2, 65600, 1], [3, 300, 2], [300, 2, 3], [40, 65, 130]]
    if ctx.thorough:
        shapes += [[70, 129, 257], [257, 70, 129], [1, 1, 1 << 21]]
    for shape in shapes:
        for j, (fmt, gz) in enumerate((f, g) for f in ("mrc", "em", "h5") for g in (False, True)):
            if not ctx.thorough and (j in (0, 3, 4)) == bool(ctx.seed % 2):
                continue   # quick tier: half of the grid (compressed and plain files in each half), the rest with the next seed
            c = gen_case(rng, ctx, fmt=fmt, gz=gz)
            c["shape"] = shape
            del c["bits"]
            c["valseed"] = int(rng.integers(0, 2 ** 31))
            c["kinds"]["values"] = "seeded"
            if c["layout"] == "strided" and int(np.prod(shape)) > 10 ** 6:
                c["layout"] = "F"
            check_case(ctx, c, boxes=_boxes_random(rng, shape, 5, forms=True), model=model)
            ctx.count("wide-shape-volumes")
    rows = [[2, 19990, 11000], [3, 5, 7], [4, 9470, 3456], [5, 19999, 11995]]
    big = [{"sparse": True, "fmt": "em", "shape": [6, 20000, 12000], "dtype": "float32", "rows": rows},
           {"sparse": True, "fmt": "mrc", "shape": [6, 20000, 12000], "dtype": "float32", "rows": rows}]
    if ctx.thorough:
        big += [{"sparse": True, "fmt": "mrc", "shape": [9, 30000, 20000], "dtype": "int8", "rows": [[4, 1, 2], [8, 29999, 19995]]},
                {"sparse": True, "fmt": "em", "shape": [5, 30000, 20000], "dtype": "int16", "rows": [[2, 1, 2], [4, 29999, 19995]]}]
    for b in big:
        big_sparse(ctx, b)


_ORDERS = [(f, g) for f in EXTS for g in (False, True)]
_CHAIN_MODES = ("memory", "memmap", "sub", "sub-memmap")


def _sessions(ctx, rng, n_obj, n_pair, n_chain):
    for _ in range(n_obj):
        order = [list(_ORDERS[i]) for i in rng.permutation(len(_ORDERS))]
        order += [order[int(rng.integers(0, len(order)))]]      # one path twice within a phase
        session_same_object(ctx, {"session": "same-object", "seed": int(rng.integers(0, 2 ** 31)),
                                  "shape": [int(x) for x in rng.choice(np.arange(2, 7), size=3, replace=False)], "order": order})
    kinds = list(_NAME_PAIRS)
    for i in range(n_pair):
        f, g = _ORDERS[int(rng.integers(0, len(_ORDERS)))] if i >= len(_ORDERS) else _ORDERS[i]
        session_two_files(ctx, {"session": "two-files", "seed": int(rng.integers(0, 2 ** 31)), "fmt": f, "gzip": g,
                                "names": kinds[i % len(kinds)],
                                "shape": [int(x) for x in rng.choice(np.arange(2, 7), size=3, replace=False)]})
    for i in range(n_chain):
        f1, g1 = _ORDERS[int(rng.integers(0, len(_ORDERS)))]
        f2, g2 = _ORDERS[int(rng.integers(0, len(_ORDERS)))]
        session_chain(ctx, {"session": "chain", "seed": int(rng.integers(0, 2 ** 31)), "fmt1": f1, "gzip1": g1, "fmt2": f2, "gzip2": g2,
                            "mode": _CHAIN_MODES[i % 4], "dtype": str(rng.choice(["float32", "float32", "float64", "int16", "int8", "float16"])),
                            "shape": [int(x) for x in rng.choice(np.arange(1, 8), size=3, replace=False)]})


# ------------------------------------------------------------------------------------------------
def run(ctx):
    for f in sorted(glob.glob(os.path.join(env.VERIF, "corpus", "C08_*.json"))):
        rec = json.load(open(f))
        if rec["case"].get("foreign"):
            check_foreign(ctx, rec["case"], boxes=rec.get("boxes", []), model=True)
        else:
            check_case(ctx, rec["case"], boxes=rec.get("boxes", ()), model=True)
        ctx.count("corpus")
    _obligations(ctx)
    _dispatch(ctx)
    _fixed_cases(ctx)

    rng = ctx.rng("main")
    # exhaustive sub-boxes of tiny volumes, every format x gzip
    tiny_shapes = [[2, 3, 4], [3, 1, 2]] if not ctx.thorough else [[2, 3, 4], [3, 1, 2], [4, 2, 3], [1, 5, 2], [3, 4, 2]]
    for shape in tiny_shapes:
        for fmt in EXTS:
            for gz in (False, True):
                if not ctx.thorough and fmt == "map":
                    continue
                c = gen_case(rng, ctx, fmt=fmt, gz=gz)
                c["shape"] = shape
                c["bits"] = _finite_bits(rng, int(np.prod(shape))).tolist()
                c["dtype"] = "float32"
                c["kinds"]["values"] = "bitpatterns"
                check_case(ctx, c, boxes=_boxes_all(shape), memmap_boxes=0)
                ctx.count("exhaustive-boxes-volumes")
    # the same path overwritten several times in one process, every format x gzip
    for rep in range(ctx.budget(1, 4)):
        for fmt in EXTS:
            for gz in (False, True):
                for k in range(3):
                    c = gen_case(rng, ctx, fmt=fmt, gz=gz)
                    c["reuse_path"] = f"rewritten_{rep}_{int(gz)}"
                    c["transport"] = None
                    check_case(ctx, c, boxes=_boxes_random(rng, c["shape"], 3), memmap_boxes=1)
                    ctx.count("same-path-rewritten")
    # random volumes
    n = ctx.budget(320, 2400)
    for i in range(n):
        c = gen_case(rng, ctx)
        if c["fmt"] in ("mrc", "map") and i % 2 == 0:
            c["ext_header"] = int(rng.choice([4, 80, 128, 1024, 13]))
        if i % 4 == 1:
            c["regen"] = True
        nb = ctx.budget(8, 14)
        check_case(ctx, c, boxes=_boxes_random(rng, c["shape"], nb, forms=True),
                   malformed=_boxes_malformed(rng, c["shape"]) if i % 3 == 0 else ())
        if i < 4:
            ctx.sample({k: c[k] for k in ("shape", "dtype", "layout", "origin", "rate", "fmt", "gzip", "oform", "rform", "transport")})
    # MRC files written by mrcfile itself
    frng = ctx.rng("foreign")
    for i in range(ctx.budget(150, 1200)):
        check_foreign(ctx, gen_foreign(frng, ctx), nbox=ctx.budget(5, 10), rng=frng)
    # sessions, large extents, files beyond 4 GiB
    _sessions(ctx, ctx.rng("sessions"), ctx.budget(3, 20), ctx.budget(20, 160), ctx.budget(48, 400))
    _wide_cases(ctx)
    _deepen3(ctx)


def _unknown_failure(ctx):
    return any(f["key"] not in _KNOWN for f in ctx.spec_failures)


def search(ctx):
    """Correspondence or an obligation broke without a failed clause: evaluate the clauses alone on a wider stream."""
    rng = ctx.rng("search")
    _fixed_cases(ctx, model=False)
    if _unknown_failure(ctx):
        return
    for i in range(ctx.budget(250, 1500)):
        c = gen_case(rng, ctx, wide=True)
        if c["fmt"] in ("mrc", "map") and i % 2 == 0:
            c["ext_header"] = int(rng.choice([4, 80, 128, 1024, 13]))
        c["regen"] = i % 3 == 0
        boxes = _boxes_all(c["shape"]) if int(np.prod(c["shape"])) <= 30 else _boxes_random(rng, c["shape"], 16, forms=True)
        check_case(ctx, c, boxes=boxes, model=False, memmap_boxes=4)
        if i % 2 == 0:
            check_foreign(ctx, gen_foreign(rng, ctx), nbox=12, model=False, rng=rng)
        if i % 25 == 0:
            _sessions(ctx, rng, 1, 5, 8)
        if _unknown_failure(ctx):
            return
    _wide_cases(ctx)


def replay(ctx, rec):
    inp = rec.get("input") or rec.get("case")
    if not inp or "shape" not in inp:
        print("replay: record carries no concrete input; running the normal check")
        return run(ctx)
    drop = ("box", "memmap", "boxform", "step", "which", "mode_read", "byte_offset", "at")
    if inp.get("slices") or "em_unknown_code" in inp or "em_rank" in inp or "truncated" in inp or "em_rate" in inp:
        print("replay: a deepen3 stream record; running those streams")
        return _deepen3(ctx)
    if inp.get("session"):
        s = {k: v for k, v in inp.items() if k not in ("box", "step", "which")}
        return {"same-object": session_same_object, "two-files": session_two_files, "chain": session_chain}[inp["session"]](ctx, s)
    if inp.get("sparse"):
        return big_sparse(ctx, {k: v for k, v in inp.items() if k not in drop})
    if inp.get("foreign"):
        fc = {k: v for k, v in inp.items() if k not in drop}
        boxes = [{"box": inp["box"], "memmap": bool(inp.get("memmap")), "form": inp.get("boxform", "int")}] if inp.get("box") else []
        return check_foreign(ctx, fc, model=False, boxes=boxes)
    case = {k: v for k, v in inp.items() if k not in drop}
    boxes = [{"box": inp["box"], "memmap": bool(inp.get("memmap")), "form": inp.get("boxform", "int")}] if inp.get("box") else []
    check_case(ctx, case, boxes=boxes, model=False)
