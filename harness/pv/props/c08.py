"""C08 — density files round-trip and subset reads equal slicing the full volume.

Leg B: the real `Density.to_file` / `Density.from_file` of the repo under test are run on generated
volumes; the bytes they put on disk and everything they read back are compared with the Lean model
(Model/C08.lean: EM byte layout, MRC header fields + payload, row-wise sub-box reader with the
full-box shortcut, slice validation, gzip sniffing, format dispatch), and every clause of the
property is evaluated directly on what the real code returned."""
import ast
import glob
import gzip as _gzip
import itertools
import json
import os
from fractions import Fraction

import numpy as np

from .. import env

ID = "C08"
RULE = ("generated 3-D volumes with pairwise distinct extents (1..7 quick / ..12 thorough, a few long axes), float32 "
        "payloads from random finite bit patterns (incl. +-0, denormals, max) or random normals, held as float32/float64 "
        "in C / Fortran / strided layout; origins (zero, grid multiples, arbitrary, negative, large), per-axis rates; "
        "mrc/map/em/h5 x gzip x memmap; all sub-boxes of tiny volumes exhaustively, random boxes (incl. full, single "
        "voxel, empty) otherwise; a malformed-box stream (out of range, negative, reversed, wrong rank). "
        "distinct = (format, gzip, shape, dtype, layout, box/memmap) tuples whose volume has > 1 voxel and whose box is "
        "non-empty; single-voxel volumes and empty boxes are compared but not counted")
ASSUMPTIONS = [
    "gzip (python stdlib) satisfies the GzipContract of the model: magic number + decompress(compress x) = x (checked on every compressed file)",
    "mrcfile / h5py internals are exercised, not modelled: MRC is tied at the level of header words at fixed offsets + payload bytes, HDF5 only through what is read back",
    "astype(float32) of float32-representable float64 values is exact (numpy)",
    "int(sampling_rate*1000) (float multiply + truncation) enters the EM model as the integer it produces",
    "origin / sampling are compared with 1 ulp(float32) (MRC origin), 2^-22 relative (MRC sampling: two float roundings), exactly (HDF5), 0.001 A (EM, isotropic only)",
]
TRUSTED = ["C08: gzip, mrcfile, h5py, numpy casts; float32 rounding of header fields is absorbed by the stated tolerances"]

EXTS = ("mrc", "map", "em", "h5")
_CODE = {"float32": (5, 4), "float64": (6, 8), "int16": (2, 2), "int32": (3, 4)}
_UINT = {4: np.uint32, 8: np.uint64, 2: np.uint16}


# ------------------------------------------------------------------------------------------------
# case construction
# ------------------------------------------------------------------------------------------------
def _finite_bits(rng, n):
    b = rng.integers(0, 2 ** 32, size=n, dtype=np.uint64).astype(np.uint32)
    bad = (b >> 23) & 0xFF == 0xFF          # inf / nan
    b[bad] &= np.uint32(0xBF7FFFFF)
    special = np.array([0x00000000, 0x80000000, 0x00000001, 0x807FFFFF, 0x7F7FFFFF, 0xFF7FFFFF, 0x3F800000], np.uint32)
    k = min(n, int(rng.integers(0, 4)))
    if k:
        b[rng.choice(n, size=k, replace=False)] = rng.choice(special, size=k)
    return b


def gen_case(rng, ctx=None, wide=False, fmt=None, gz=None):
    hi = 12 if (wide or (ctx is not None and ctx.thorough)) else 7
    r = rng.random()
    if r < 0.75:
        shape = [int(x) for x in rng.choice(np.arange(1, hi + 1), size=3, replace=False)]
    elif r < 0.9:
        shape = [int(x) for x in rng.integers(1, hi + 1, size=3)]
    else:
        shape = [int(x) for x in rng.choice(np.arange(1, 5), size=3, replace=False)]
        shape[int(rng.integers(0, 3))] = int(rng.integers(20, 60 if not wide else 200))
    n = int(np.prod(shape))
    dtype = str(rng.choice(["float32", "float32", "float32", "float64"]))
    if rng.random() < 0.4 and dtype == "float32":
        bits, vk = _finite_bits(rng, n), "bitpatterns"
    else:
        bits, vk = rng.standard_normal(n).astype(np.float32).view(np.uint32), "normal"
    layout = str(rng.choice(["C", "C", "C", "F", "strided"]))
    rk = str(rng.choice(["ones", "iso", "aniso", "aniso", "dyadic"]))
    if rk == "ones":
        rate = [1.0, 1.0, 1.0]
    elif rk == "iso":
        rate = [float(np.round(rng.uniform(0.5, 20.0), int(rng.integers(1, 4))))] * 3
    elif rk == "dyadic":
        rate = [float(x) for x in rng.choice([0.5, 1.25, 2.0, 4.0, 0.75], size=3)]
    else:
        rate = [float(x) for x in rng.uniform(0.3, 25.0, size=3)]
    ok_ = str(rng.choice(["zero", "grid", "grid-half", "arbitrary", "negative", "large", "mixed-zero"]))
    if ok_ == "zero":
        origin = [0.0, 0.0, 0.0]
    elif ok_ == "grid":
        origin = [float(int(k) * s) for k, s in zip(rng.integers(-50, 50, size=3), rate)]
    elif ok_ == "grid-half":
        if rk not in ("ones", "dyadic"):
            rate = [float(x) for x in rng.choice([0.5, 1.25, 2.0, 4.0], size=3)]
        origin = [float((int(k) + 0.5) * s) for k, s in zip(rng.integers(-9, 9, size=3), rate)]
    elif ok_ == "arbitrary":
        origin = [float(x) for x in rng.uniform(-300, 300, size=3)]
    elif ok_ == "negative":
        origin = [-float(x) for x in rng.uniform(0.1, 500, size=3)]
    elif ok_ == "large":
        origin = [float(x) for x in rng.uniform(-1, 1, size=3) * 10.0 ** rng.integers(3, 7)]
    else:
        origin = [0.0, float(rng.uniform(-40, 40)), 0.0]
    fmt = fmt or str(rng.choice(EXTS))
    gz = bool(rng.integers(0, 2)) if gz is None else gz
    return {"shape": shape, "bits": bits.tolist(), "dtype": dtype, "layout": layout, "origin": origin, "rate": rate,
            "fmt": fmt, "gzip": gz, "kinds": {"values": vk, "rate": rk, "origin": ok_}}


def _volume(case):
    """the float32 reference volume and the array handed to Density (dtype / memory layout as requested)"""
    shape = tuple(case["shape"])
    if "bits" in case:
        ref = np.array(case["bits"], dtype=np.uint32).view(np.float32).reshape(shape)
    else:  # large deterministic volumes are described, not listed
        ref = np.arange(int(np.prod(shape)), dtype=np.float32).reshape(shape)
    a = ref.astype(case.get("dtype", "float32"))
    lay = case.get("layout", "C")
    if lay == "F":
        a = np.asfortranarray(a)
    elif lay == "strided":
        big = np.zeros(tuple(2 * s + 1 for s in shape), dtype=a.dtype)
        big[1::2, 1::2, 1::2] = a
        a = big[1::2, 1::2, 1::2]
    return ref, a


def _u32(x):
    return np.ascontiguousarray(np.asarray(x).astype(np.float32, copy=False)).view(np.uint32)


def _same_bits(x, ref):
    x = np.asarray(x)
    return tuple(x.shape) == tuple(ref.shape) and np.array_equal(_u32(x), _u32(ref))


def _frac(x):
    f = Fraction(float(x))
    return [f.numerator, f.denominator]


def _close(v, r, rel):
    """float v (read from a float32 field) equals the exact rational r up to `rel`"""
    v = Fraction(float(v))
    return abs(v - r) <= abs(r) * rel + Fraction(1, 10 ** 44)


def _boxes_all(shape):
    rng_ax = [[(s, e) for s in range(n) for e in range(s + 1, n + 1)] for n in shape]
    return [list(b) for b in itertools.product(*rng_ax)]


def _boxes_random(rng, shape, k):
    out = [[(0, n) for n in shape], [(n - 1, n) for n in shape], [(0, 1) for _ in shape]]
    for _ in range(k):
        b = []
        for n in shape:
            s = int(rng.integers(0, n))
            e = int(rng.integers(s + 1, n + 1))
            b.append((s, e))
        out.append(b)
    # one box with an empty axis
    b = [(0, n) for n in shape]
    ax = int(rng.integers(0, 3))
    s = int(rng.integers(0, shape[ax] + 1))
    b[ax] = (s, s)
    out.append(b)
    return out


def _boxes_malformed(rng, shape):
    nz, ny, nx = shape
    out = [
        [(0, nz + 1), (0, ny), (0, nx)], [(0, nz), (0, ny), (1, nx + 1)], [(1, nz + 1), (1, ny + 1), (1, nx + 1)],
        [(-1, nz), (0, ny), (0, nx)], [(0, nz), (-2, -1), (0, nx)], [(0, nz), (0, ny), (nx, 0)],
        [(nz + 1, nz + 1), (0, ny), (0, nx)], [(0, nz), (0, ny)], [(0, nz), (0, ny), (0, nx), (0, 1)],
        [(0, 1)], [(0, nz), (ny, ny), (nx, nx)],
    ]
    for _ in range(3):
        out.append([(int(rng.integers(-2, n + 3)), int(rng.integers(-2, n + 3))) for n in shape])
    return out


# ------------------------------------------------------------------------------------------------
# running the real code
# ------------------------------------------------------------------------------------------------
_counter = [0]


def _path(case):
    _counter[0] += 1
    d = os.path.join(env.scratch(), "c08")
    os.makedirs(d, exist_ok=True)
    if case.get("reuse_path"):
        # the same file name written again with other content (a pipeline overwriting its output): what is read back must
        # be what was written last, whatever was read from that path before
        return os.path.join(d, f"{case['reuse_path']}.{case['fmt']}")
    return os.path.join(d, f"v{_counter[0]}.{case['fmt']}")


def _write(case):
    from tme import Density
    ref, a = _volume(case)
    p = _path(case)
    Density(a, origin=tuple(case["origin"]), sampling_rate=tuple(case["rate"])).to_file(p, gzip=case["gzip"])
    final = p + ".gz" if case["gzip"] else p
    return ref, a, final


def _read(path, box=None, memmap=False):
    """(ok, Density | error-name)"""
    from tme import Density
    try:
        sub = None if box is None else tuple(slice(s, e) for s, e in box)
        return True, Density.from_file(path, subset=sub, use_memmap=memmap)
    except Exception as e:  # noqa
        return False, type(e).__name__


def _inp(case, **kw):
    d = {k: v for k, v in case.items() if k != "kinds"}
    d.update(kw)
    return d


def _fmtkey(case):
    return "mrc" if case["fmt"] in ("mrc", "map") else case["fmt"]


def _origin_key(case):
    o, s = case["origin"], case["rate"]
    if all(abs(x) <= 1e-8 for x in o) and any(np.rint(x / y) != 0 for x, y in zip(o, s)):
        return "mrc:origin:allclose0-with-nonzero-start"
    return "mrc:origin"


def _arr_res(dens):
    return {"shape": list(dens.data.shape), "data": _u32(dens.data).reshape(-1).tolist()}


def _tokens(a, dtype):
    b = np.dtype(dtype).itemsize
    return np.ascontiguousarray(a).reshape(-1).view(_UINT[b]).tolist()


def _model_tokens_as_f32bits(tokens, dtype):
    b = np.dtype(dtype).itemsize
    x = np.array(tokens, dtype=_UINT[b]).view(np.dtype(dtype))
    return _u32(x).tolist()


def check_case(ctx, case, boxes=(), model=True, malformed=(), memmap_boxes=2):
    """Write one volume with the real code, compare bytes / read-backs with the model, evaluate the
    property's clauses on the real outputs.  `model=False` (search, replays of spec failures) evaluates the
    clauses only."""
    d = ctx.driver
    fk = _fmtkey(case)
    gz = case["gzip"]
    shape = list(case["shape"])
    nvox = int(np.prod(shape))
    try:
        ref, a, path = _write(case)
    except Exception as e:  # noqa
        ctx.spec("writing a density succeeds", _inp(case), False, type(e).__name__, key=f"{fk}:write-raises")
        return
    raw = open(path, "rb").read()
    ext = int(case.get("ext_header", 0)) if fk == "mrc" else 0
    if ext:
        # an MRC file as other programs write it: `nsymbt` bytes of extended header between header and data
        plain = _gzip.decompress(raw) if gz else raw
        filler = bytes((37 * i + 11) % 251 for i in range(ext))
        plain = plain[:92] + np.array([ext], "<i4").tobytes() + plain[96:1024] + filler + plain[1024:]
        raw = _gzip.compress(plain) if gz else plain
        with open(path, "wb") as fh:
            fh.write(raw)
        ctx.count("mrc:extended-header")
    ctx.count(f"fmt:{case['fmt']}{'.gz' if gz else ''}")
    ctx.count(f"dtype:{case.get('dtype', 'float32')}/{case.get('layout', 'C')}")
    for k, v in case.get("kinds", {}).items():
        ctx.count(f"{k}:{v}")
    ctx.count("shape:" + ("distinct-extents" if len(set(shape)) == 3 else "repeated-extent"))

    # ---- gzip layer: sniffing agrees with the model, contract of the compressor holds
    content = raw
    whole_file_gz = gz and fk != "h5"          # h5 "gzip" is an internal filter, the file itself is plain HDF5
    if model:
        from tme.density import is_gzipped
        ctx.agree("is_gzipped", {"head": raw[:4]}, bool(is_gzipped(path)), d.call("c08.isGz", head=raw[:4].hex()))
    if whole_file_gz:
        okc = raw[:2] == b"\x1f\x8b"
        try:
            content = _gzip.decompress(raw)
        except Exception:  # noqa
            okc = False
        ctx.spec("gzip=True writes a gzip stream", _inp(case), okc, key=f"{fk}:gzip-stream")
        if not okc:
            return
    elif fk != "h5" and raw[:2] == b"\x1f\x8b" and model:
        ctx.note(f"plain {fk} file starts with the gzip magic number (shape {shape})")

    dt = case.get("dtype", "float32")
    # ---- byte level correspondence
    header = None
    if model and fk == "em":
        code, b = _CODE[dt]
        rate_milli = int(np.asarray(case["rate"])[0] * 1000)          # same expression as _save_em
        enc = d.call("c08.emEncode", code=code, b=b, shape=shape, rateMilli=rate_milli, data=_tokens(a, dt))
        ctx.agree("_save_em bytes", _inp(case), content.hex(), enc)
        header = 512
        for mm in (False, True):
            m = d.call("c08.emDecode", file=content.hex(), memmap=mm)
            okr, r = _read(path, memmap=mm)
            if okr:
                impl = {"shape": list(r.data.shape), "data": _u32(r.data).reshape(-1).tolist(),
                        "rate": [round(float(x) * 1000) for x in r.sampling_rate]}
            else:
                impl = {"raised": True}
            if "raised" in m:
                mod = {"raised": True}
            else:
                mod = {"shape": m["shape"], "data": _model_tokens_as_f32bits(m["data"], dt), "rate": [m["rateOut"]] * 3}
            ctx.agree("_load_em" + ("(memmap)" if mm else ""), _inp(case, memmap=mm), impl, mod)
    if model and fk == "mrc":
        w = np.frombuffer(content[:1024], dtype="<i4")
        fl = np.frombuffer(content[:1024], dtype="<f4")
        mf = d.call("c08.mrcFields", shape=shape, origin=[_frac(x) for x in case["origin"]], rate=[_frac(x) for x in case["rate"]])
        impl_i = {"nxyz": w[0:3].tolist(), "mode": int(w[3]), "mxyz": w[7:10].tolist(), "mapcrs": w[16:19].tolist(),
                  "nsymbt": int(w[23]), "map": content[208:212].hex()}
        mod_i = {"nxyz": mf["nxyz"], "mode": mf["mode"], "mxyz": mf["mxyz"], "mapcrs": mf["mapcrs"], "nsymbt": mf["nsymbt"] + ext,
                 "map": b"MAP ".hex()}
        ctx.agree("_save_mrc header words (int)", _inp(case), impl_i, mod_i)
        # start indices: rint(o/s) in float64 vs exact; skip exact-tie neighbourhoods
        q = [Fraction(o) / Fraction(s) for o, s in zip(case["origin"], case["rate"])][::-1]
        near_tie = any(abs((x % 1) - Fraction(1, 2)) < Fraction(1, 10 ** 9) and (x % 1) != Fraction(1, 2) for x in q)
        if near_tie or any(abs(x) >= 2 ** 31 for x in q):
            ctx.count("mrc:nstart-skipped")
        else:
            ctx.agree("_save_mrc nstart", _inp(case), w[4:7].tolist(), mf["nstart"])
        cm = [Fraction(n, dd) for n, dd in mf["cella"]]
        om = [Fraction(n, dd) for n, dd in mf["origin"]]
        okf = all(_close(v, r, Fraction(1, 2 ** 22)) for v, r in zip(fl[10:13], cm)) and \
            all(_close(v, r, Fraction(1, 2 ** 23)) for v, r in zip(fl[49:52], om))
        ctx.agree("_save_mrc header words (float32 of model rationals)", _inp(case),
                  {"cella": fl[10:13].tolist(), "origin": fl[49:52].tolist()} if not okf else "match",
                  {"cella": [float(x) for x in cm], "origin": [float(x) for x in om]} if not okf else "match")
        header = 1024 + int(w[23])
        pay = d.call("c08.payload", b=4, data=_u32(a).reshape(-1).tolist())
        ctx.agree("_save_mrc payload", _inp(case), content[header:].hex(), pay)
        # reader: the file's own header words (exact) through the model's mrcRead vs the real reader
        fields = {"nxyz": w[0:3].tolist(), "mode": int(w[3]), "nstart": w[4:7].tolist(), "mxyz": w[7:10].tolist(),
                  "cella": [_frac(x) for x in fl[10:13]], "mapcrs": w[16:19].tolist(),
                  "origin": [_frac(x) for x in fl[49:52]], "nsymbt": int(w[23])}
        mr = d.call("c08.mrcRead", **fields)
        okr, r = _read(path)
        if okr and "raised" not in mr:
            same = list(r.data.shape) == mr["shape"] and \
                all(_close(v, Fraction(n, dd), Fraction(1, 2 ** 22)) for v, (n, dd) in zip(r.origin, mr["origin"])) and \
                all(_close(v, Fraction(n, dd), Fraction(1, 2 ** 22)) for v, (n, dd) in zip(r.sampling_rate, mr["rate"]))
            ctx.agree("_load_mrc header", _inp(case), "match" if same else
                      {"shape": list(r.data.shape), "origin": r.origin.tolist(), "rate": r.sampling_rate.tolist()},
                      "match" if same else {k: mr[k] for k in ("shape", "origin", "rate")})
        else:
            ctx.agree("_load_mrc header", _inp(case), {"raised": not okr}, {"raised": "raised" in mr})
    if model and fk == "h5":
        ctx.agree("hdf5 signature", _inp(case), raw[:4].hex(), "89484446")

    # ---- property clauses on the real read-back (memory)
    okr, full = _read(path)
    if not okr:
        ctx.spec("reading back succeeds", _inp(case), False, full, key=f"{fk}:read-raises")
        return
    inp = _inp(case)
    ctx.spec("same shape and axis order", inp, list(full.data.shape) == shape, {"got": list(full.data.shape)}, key=f"{fk}:shape")
    ctx.spec("same voxel values as float32", inp, _same_bits(full.data, ref), key=f"{fk}:data")
    if fk == "mrc":
        oko = all(_close(v, Fraction(o), Fraction(1, 2 ** 23)) for v, o in zip(full.origin, case["origin"]))
        ctx.spec("same origin (1 ulp float32)", inp, oko, {"got": np.asarray(full.origin).tolist()}, key=_origin_key(case))
        oks = all(_close(v, Fraction(s), Fraction(1, 2 ** 22)) for v, s in zip(full.sampling_rate, case["rate"]))
        ctx.spec("same sampling rate (float32)", inp, oks, {"got": np.asarray(full.sampling_rate).tolist()}, key="mrc:sampling")
    elif fk == "h5":
        ctx.spec("same origin (exact)", inp, np.asarray(full.origin).tolist() == case["origin"],
                 {"got": np.asarray(full.origin).tolist()}, key="h5:origin")
        ctx.spec("same sampling rate (exact)", inp, np.asarray(full.sampling_rate).tolist() == case["rate"],
                 {"got": np.asarray(full.sampling_rate).tolist()}, key="h5:sampling")
    elif len(set(case["rate"])) == 1:
        s = case["rate"][0]
        oks = all(abs(float(v) - s) <= 0.001 + 1e-6 * s for v in full.sampling_rate)
        ctx.spec("EM isotropic sampling to 0.001", inp, oks, {"got": np.asarray(full.sampling_rate).tolist()}, key="em:sampling")
    if nvox > 1:
        ctx.distinct((case["fmt"], gz, tuple(shape), dt, case.get("layout", "C"), "full"))

    # ---- memory-mapped full read returns the same data
    okm, mm = _read(path, memmap=True)
    if not okm:
        ctx.spec("memory-mapped read succeeds", _inp(case, memmap=True), False, mm, key=f"{fk}:memmap-raises")
    else:
        ctx.spec("memory-mapped read == in-memory read", _inp(case, memmap=True),
                 _same_bits(mm.data, np.asarray(full.data)), key=f"{fk}:memmap")
        ctx.count("memmap:" + type(mm.data).__name__)
        if nvox > 1:
            ctx.distinct((case["fmt"], gz, tuple(shape), dt, case.get("layout", "C"), "memmap"))

        # a density obtained from a memory-mapped read written again (what pipelines do with big tomograms)
        if case.get("regen"):
            from tme import Density
            p2 = _path(case)
            try:
                mm.to_file(p2, gzip=gz)
                ok2, again = _read(p2 + ".gz" if gz else p2)
                good = ok2 and _same_bits(again.data, ref)
                if good and fk != "em":
                    good = all(_close(v, Fraction(float(o)), Fraction(1, 2 ** 22)) for v, o in zip(again.origin, full.origin)) and \
                        all(_close(v, Fraction(float(o)), Fraction(1, 2 ** 21)) for v, o in zip(again.sampling_rate, full.sampling_rate))
                ctx.spec("read (memmap) -> write -> read returns the same density", _inp(case, memmap=True, regen=True), good,
                         None if ok2 else again, key=f"{fk}:second-generation")
            except Exception as e:  # noqa
                ctx.spec("read (memmap) -> write -> read returns the same density", _inp(case, memmap=True, regen=True), False,
                         type(e).__name__, key=f"{fk}:second-generation")
            ctx.count("second-generation")
            for q in (p2, p2 + ".gz"):
                if os.path.exists(q):
                    os.remove(q)

    # ---- sub-boxes
    boxes = [[tuple(x) for x in b] for b in boxes]
    results = []
    for i, box in enumerate(boxes):
        use_mm = i < memmap_boxes
        oks, sub = _read(path, box=box, memmap=use_mm)
        binp = _inp(case, box=box, memmap=use_mm)
        want = ref[tuple(slice(s, e) for s, e in box)]
        empty = want.size == 0
        skey = f"{fk}:subset"
        if fk == "mrc" and not gz and shape[2] % 65536 == 35615:
            skey = "mrc:subset:nx-gzip-magic"
        if not oks:
            ctx.spec("sub-box read succeeds", binp, False, sub, key=skey + "-raises" if skey.endswith("subset") else skey)
            results.append({"raised": True})
        else:
            ctx.spec("sub-box == slice of the full volume", binp, _same_bits(sub.data, want),
                     {"got_shape": list(sub.data.shape)}, key=skey)
            results.append(_arr_res(sub))
            kind = "full" if want.shape == ref.shape else "single-voxel" if want.size == 1 else "empty" if empty else "proper"
            ctx.count("box:" + kind)
            if not empty and nvox > 1:
                ctx.distinct((case["fmt"], gz, tuple(shape), dt, case.get("layout", "C"), tuple(box), use_mm))
    if model and boxes:
        if header is not None:
            b = 4 if fk == "mrc" else _CODE[dt][1]
            ms = d.call("c08.subsets", file=content.hex(), header=header, shape=shape, b=b, boxes=boxes)
            for box, impl, m in zip(boxes, results, ms):
                mod = {"raised": True} if "raised" in m else \
                    {"shape": m["shape"], "data": _model_tokens_as_f32bits(m["data"], "float32" if fk == "mrc" else dt)}
                ctx.agree(f"{fk} sub-box read", _inp(case, box=box), impl, mod)
        else:
            for box, impl in zip(boxes, results):
                m = d.call("c08.slice", shape=shape, data=_u32(ref).reshape(-1).tolist(), box=box)
                ctx.agree("h5 sub-box read", _inp(case, box=box), impl, {"shape": m["shape"], "data": m["data"]})

    # ---- malformed boxes: outcome (raised / data) as the model predicts; not part of the property
    if model and malformed and header is not None:
        malformed = [[tuple(x) for x in b] for b in malformed]
        b = 4 if fk == "mrc" else _CODE[dt][1]
        ms = d.call("c08.subsets", file=content.hex(), header=header, shape=shape, b=b, boxes=malformed, mrcpad=(fk == "mrc"))
        for box, m in zip(malformed, ms):
            oks, sub = _read(path, box=box)
            impl = _arr_res(sub) if oks else {"raised": True}
            mod = {"raised": True} if "raised" in m else \
                {"shape": m["shape"], "data": _model_tokens_as_f32bits(m["data"], "float32" if fk == "mrc" else dt)}
            ctx.agree(f"{fk} malformed sub-box outcome", _inp(case, box=box), impl, mod)
            ctx.count("malformed:" + (m.get("raised", "ok") if isinstance(m, dict) else "ok"))
    try:
        os.remove(path)
    except OSError:
        pass


# ------------------------------------------------------------------------------------------------
# obligations tied to the source
# ------------------------------------------------------------------------------------------------
def _tables_from_source():
    src = open(os.path.join(env.REPO, "tme", "density.py")).read()
    tree = ast.parse(src)
    save, load = None, None

    def np_name(node):
        # np.dtype(np.int8) | np.int8 | np.byte
        if isinstance(node, ast.Call):
            node = node.args[0]
        return np.dtype(getattr(np, node.attr)).name

    for node in ast.walk(tree):
        if isinstance(node, ast.Assign) and len(node.targets) == 1 and isinstance(node.targets[0], ast.Name) \
                and isinstance(node.value, ast.Dict):
            if node.targets[0].id == "DATA_TYPE_MAPPING":
                save = [[np_name(k), v.value] for k, v in zip(node.value.keys, node.value.values)]
            if node.targets[0].id == "DATA_TYPE_CODING":
                load = [[k.value, np_name(v)] for k, v in zip(node.value.keys, node.value.values)]
    return save, load


class _Probe:
    """records which writer / reader `to_file` / `from_file` select for a file name"""

    @staticmethod
    def make():
        from tme import Density
        calls = []

        class P(Density):
            def _save_mrc(self, filename, gzip=False):
                calls.append(("save", "mrc", filename))

            def _save_em(self, filename, gzip=False):
                calls.append(("save", "em", filename))

            def _save_hdf5(self, filename, gzip=False):
                calls.append(("save", "h5", filename))

            @classmethod
            def _load_mrc(cls, filename, subset=None, use_memmap=False):
                calls.append(("load", "mrc", filename))
                return np.zeros((1, 1, 1), np.float32), np.zeros(3), np.ones(3), {}

            @classmethod
            def _load_em(cls, filename, subset=None, use_memmap=False):
                calls.append(("load", "em", filename))
                return np.zeros((1, 1, 1), np.float32), np.zeros(3), np.ones(3), {}

            @classmethod
            def _load_hdf5(cls, filename, subset=None, use_memmap=False):
                calls.append(("load", "h5", filename))
                return np.zeros((1, 1, 1), np.float32), np.zeros(3), np.ones(3), {}
        return P, calls


def _dispatch(ctx):
    d = ctx.driver
    rng = ctx.rng("names")
    P, calls = _Probe.make()
    stems = ["vol", "a.b", "tomogram_01", "stem", "system", "them", "xh5", "map", "em", "h5", "x.gz", "theorem.em", "oh5.mrc",
             "volgz", "a.tgz", "b.em.tgz"]
    exts = ["", ".mrc", ".map", ".em", ".h5", ".mrc.gz", ".em.gz", ".h5.gz", ".rec", ".ccp4", ".EM", ".hdf5", ".gz", ".em.bak"]
    names = [s + e for s in stems for e in exts]
    names = [names[i] for i in rng.permutation(len(names))[:ctx.budget(120, len(names))]]
    reqs = [("c08.fmt", {"name": n, "gzip": g}) for n in names for g in (False, True)]
    ms = d.batch(reqs)
    for (_, args), m in zip(reqs, ms):
        del calls[:]
        P(np.zeros((1, 1, 1), np.float32)).to_file(args["name"], gzip=args["gzip"])
        sv = calls[-1]
        P.from_file(sv[2])
        ld = calls[-1]
        ctx.agree("to_file/from_file dispatch", args, {"final": sv[2], "save": sv[1], "load": ld[1]}, m)
        ctx.spec("reader and writer select the same format", args, sv[1] == ld[1], key="dispatch")
        ctx.count("dispatch:" + sv[1])
    ctx.distinct(("dispatch", len(names)))


def _obligations(ctx):
    save, load = _tables_from_source()
    t = ctx.driver.call("c08.tables")
    ctx.obligation("EM DATA_TYPE_MAPPING (source) == emSaveTable (model)", save == t["save"], {"source": save, "model": t["save"]})
    ctx.obligation("EM DATA_TYPE_CODING (source) == emLoadTable (model)", load == t["load"], {"source": load, "model": t["load"]})
    sizes = [[c, np.dtype(n).itemsize] for c, n in (load or [])]
    ctx.obligation("numpy item sizes == dtypeSize (model)", sizes == t["sizes"], {"numpy": sizes, "model": t["sizes"]})


# ------------------------------------------------------------------------------------------------
# fixed cases: pre-findings / known findings / regression of the fix: commits
# ------------------------------------------------------------------------------------------------
def _fixed_cases(ctx, model=True):
    rng = ctx.rng("fixed")
    base = {"bits": rng.standard_normal(24).astype(np.float32).view(np.uint32).tolist(), "shape": [2, 3, 4],
            "dtype": "float32", "layout": "C", "origin": [1.5, -2.25, 3.0], "rate": [2.0, 2.0, 2.0]}
    for fmt in EXTS:
        for gz in (False, True):
            check_case(ctx, dict(base, fmt=fmt, gzip=gz), boxes=[[(0, 1), (1, 3), (1, 4)], [(0, 2), (0, 3), (0, 4)]], model=model)
    # first dimension byte equal to the first gzip magic byte only (nx = 31 = 0x1f): still a plain file
    b31 = dict(base, shape=[2, 3, 31], bits=rng.standard_normal(186).astype(np.float32).view(np.uint32).tolist())
    for fmt in ("mrc", "em"):
        check_case(ctx, dict(b31, fmt=fmt, gzip=False), boxes=[[(0, 2), (1, 2), (3, 30)], [(1, 2), (0, 3), (30, 31)]], model=model)
    # full-volume shortcut must be exact: 100001 voxels along x, ask for the first 100000
    big = {"shape": [1, 1, 100001], "dtype": "float32", "layout": "C", "origin": [0.0, 0.0, 0.0], "rate": [1.0, 1.0, 1.0]}
    for fmt in ("mrc", "em"):
        c = dict(big, fmt=fmt, gzip=False)
        check_case(ctx, c, boxes=[[(0, 1), (0, 1), (0, 100000)], [(0, 1), (0, 1), (1, 100001)]], model=False, memmap_boxes=0)
    if model:
        m = ctx.driver.call("c08.shortcut", box=[[0, 1], [0, 1], [0, 100000]], shape=[1, 1, 100001])
        ctx.agree("full-box shortcut is exact", {"shape": [1, 1, 100001]}, {"exact": False}, {"exact": m["exact"]})
    # known: an uncompressed MRC whose nx ends in the gzip magic number is taken for gzip by is_gzipped
    magic = {"shape": [1, 1, 35615], "dtype": "float32", "layout": "C", "origin": [0.0, 0.0, 0.0], "rate": [1.0, 1.0, 1.0],
             "fmt": "mrc", "gzip": False}
    check_case(ctx, magic, boxes=[[(0, 1), (0, 1), (5, 9)]], model=False, memmap_boxes=0)
    # known: origin within 1e-8 of zero is replaced by start*rate
    tiny = dict(base, origin=[5.04e-9, 0.0, 0.0], rate=[1e-10, 1e-10, 1e-10], fmt="mrc", gzip=False)
    check_case(ctx, tiny, model=False)


# ------------------------------------------------------------------------------------------------
def run(ctx):
    for f in sorted(glob.glob(os.path.join(env.VERIF, "corpus", "C08_*.json"))):
        rec = json.load(open(f))
        check_case(ctx, rec["case"], boxes=rec.get("boxes", ()), model=True)
        ctx.count("corpus")
    _obligations(ctx)
    _dispatch(ctx)
    _fixed_cases(ctx)

    rng = ctx.rng("main")
    # exhaustive sub-boxes of tiny volumes, every format x gzip
    tiny_shapes = [[2, 3, 4], [3, 1, 2]] if not ctx.thorough else [[2, 3, 4], [3, 1, 2], [4, 2, 3], [1, 5, 2], [3, 4, 2]]
    for shape in tiny_shapes:
        for fmt in EXTS:
            for gz in (False, True):
                if not ctx.thorough and fmt == "map":
                    continue
                c = gen_case(rng, ctx, fmt=fmt, gz=gz)
                c["shape"] = shape
                c["bits"] = _finite_bits(rng, int(np.prod(shape))).tolist()
                c["dtype"] = "float32"
                c["kinds"]["values"] = "bitpatterns"
                check_case(ctx, c, boxes=_boxes_all(shape), memmap_boxes=0)
                ctx.count("exhaustive-boxes-volumes")
    # the same path overwritten several times in one process, every format x gzip
    for rep in range(ctx.budget(1, 4)):
        for fmt in EXTS:
            for gz in (False, True):
                for k in range(3):
                    c = gen_case(rng, ctx, fmt=fmt, gz=gz)
                    c["reuse_path"] = f"rewritten_{rep}_{int(gz)}"
                    check_case(ctx, c, boxes=_boxes_random(rng, c["shape"], 3), memmap_boxes=1)
                    ctx.count("same-path-rewritten")
    # random volumes
    n = ctx.budget(320, 2400)
    for i in range(n):
        c = gen_case(rng, ctx)
        if c["fmt"] in ("mrc", "map") and i % 2 == 0:
            c["ext_header"] = int(rng.choice([4, 80, 128, 1024, 13]))
        if i % 4 == 1:
            c["regen"] = True
        nb = ctx.budget(8, 14)
        check_case(ctx, c, boxes=_boxes_random(rng, c["shape"], nb),
                   malformed=_boxes_malformed(rng, c["shape"]) if i % 3 == 0 else ())
        if i < 4:
            ctx.sample({k: c[k] for k in ("shape", "dtype", "layout", "origin", "rate", "fmt", "gzip")})


def search(ctx):
    """Correspondence or an obligation broke without a failed clause: evaluate the clauses alone on a wider stream."""
    rng = ctx.rng("search")
    _fixed_cases(ctx, model=False)
    for i in range(ctx.budget(250, 1500)):
        c = gen_case(rng, ctx, wide=True)
        if c["fmt"] in ("mrc", "map") and i % 2 == 0:
            c["ext_header"] = int(rng.choice([4, 80, 128, 1024, 13]))
        c["regen"] = i % 3 == 0
        boxes = _boxes_all(c["shape"]) if int(np.prod(c["shape"])) <= 30 else _boxes_random(rng, c["shape"], 16)
        check_case(ctx, c, boxes=boxes, model=False, memmap_boxes=4)
        if any(f["key"] not in ("mrc:subset:nx-gzip-magic", "mrc:origin:allclose0-with-nonzero-start") for f in ctx.spec_failures):
            break


def replay(ctx, rec):
    inp = rec.get("input") or rec.get("case")
    if not inp or "shape" not in inp:
        print("replay: record carries no concrete input; running the normal check")
        return run(ctx)
    case = {k: v for k, v in inp.items() if k not in ("box", "memmap")}
    boxes = [inp["box"]] if inp.get("box") else []
    check_case(ctx, case, boxes=boxes, model=False, memmap_boxes=1 if inp.get("memmap") else 0)
