"""C02 — match results do not depend on splitting, job schedule or rotation order.

Leg A tie: the per-rotation loop bodies of corr/flc/mcc_scoring are *translated from /repo's source on every run*
(pv/c02_extract.py -> lean/PytmeModel/Extracted/C02.lean) and `scoring_loops_history_free` is re-proved about them.
Leg B: real scan / scan_subsets under split dictionaries, job schedules, rotation orders and histories."""
import itertools

import numpy as np

from .. import scoring as S
from .. import c02_extract as X

ID = "C02"
RULE = ("split dictionaries with 1..4 parts on any subset of axes, job schedules (outer, inner) incl. more jobs than "
        "rotations and real worker processes, permuted / chunked rotation lists (grid rotations plus a generic one), "
        "pad_fourier on/off, edge padding on/off, all 7 scores; histories [r], [r', r], [r, r', r] with a recording "
        "callback. distinct = distinct (score, shapes, splits, schedule, order permutation, pad flags) tuples; the "
        "unsplit (1,1) identity-order reference itself is not counted")
ASSUMPTIONS = ["float noise between differently tiled FFTs is below 2e-4 on normalised scores / 1e-5 relative on CC, LCC",
               "loky scheduling beyond the schedules actually run is not explored",
               "the buffer-language translation treats a ufunc with out=<buffer> as a full overwrite and "
               "rigid_transform(out=...) as a partial write (it writes out[:template.shape] only)"]
TRUSTED = ["C02: pv/c02_extract.py (AST translator of the three scoring loops into Pm.C02.Prog); joblib/loky process pool"]

TOLN = 2e-4


def extract(ctx):
    try:
        ex = X.write_lean()
        ctx.extra["extracted_loops"] = {k: {"inputs": v[0], "scratch": v[1], "n_ops": len(v[2])} for k, v in ex.items()}
    except X.ExtractError as e:
        ctx.obligation("translate scoring loops (c02_extract)", False, str(e))


def _close(a, b, score):
    a, b = np.asarray(a, np.float64), np.asarray(b, np.float64)
    if a.shape != b.shape:
        return False, float("inf")
    if score in ("CC", "LCC"):
        tol = 1e-4 * max(1.0, float(np.max(np.abs(b))))
    else:
        tol = TOLN
    d = float(np.max(np.abs(a - b))) if a.size else 0.0
    return d <= tol, d


def _make(rng, nd, score, big=False):
    ms = [int(rng.integers(2, 5))] * nd if rng.random() < 0.7 else [int(x) for x in rng.integers(2, 5, size=nd)]
    lo = 3 * max(ms)
    ns = [int(rng.integers(lo, lo + (8 if nd == 2 else 4))) for _ in range(nd)]
    target = rng.integers(-4, 5, size=ns).astype(np.float64) + rng.random(ns) * 0.25
    template = rng.integers(-4, 5, size=ms).astype(np.float64)
    if template.std() == 0:
        template.flat[0] += 1
    mask = None
    if score not in ("CC", "LCC") and rng.random() < 0.5:
        mask = (rng.random(ms) < 0.75).astype(np.float64)
        if mask.sum() < 3 or template[mask > 0].std() == 0:
            mask = None
        elif score != "MCC" and rng.random() < 0.5:
            # soft-edged mask (fractional weights): splits, schedules and histories must not matter for these either
            mask = mask * rng.choice([0.25, 0.5, 0.75, 1.0], size=ms)
    tmask = (rng.random(ns) < 0.9).astype(np.float64) if score == "MCC" else None
    rots = [r for r in S.grid_rotations(nd) if S.rot_ok_for_shape(r[0], ms)]
    sel = rng.permutation(len(rots))[: int(rng.integers(2, min(len(rots), 5) + 1))]
    R = [rots[i][2] for i in sel]
    if rng.random() < 0.4:       # one generic (interpolated) rotation: deterministic per tile, so invariance still holds
        from scipy.spatial.transform import Rotation
        if nd == 3:
            R.append(Rotation.random(random_state=int(rng.integers(0, 10 ** 6))).as_matrix())
        else:
            a = float(rng.uniform(0, 2 * np.pi))
            R.append(np.array([[np.cos(a), -np.sin(a)], [np.sin(a), np.cos(a)]]))
    return ns, ms, target, template, mask, tmask, np.stack(R)


def _rand_splits(rng, ns, ms):
    splits = {}
    for ax, n in enumerate(ns):
        if rng.random() < 0.6:
            kmax = max(1, min(4, n // (max(ms) + 1)))
            splits[ax] = int(rng.integers(1, kmax + 1))
    if all(v == 1 for v in splits.values()):
        splits[int(rng.integers(0, len(ns)))] = 2
    return splits


def run(ctx):
    d = ctx.driver
    rng = ctx.rng("main")
    from tme.matching_data import MatchingData
    from tme.matching_utils import split_shape

    # ---- the extracted loop programs as the compiled model sees them (sanity: all three pass the static check)
    loops = d.call("c02.loops")
    ctx.obligation("extracted loop bodies pass Pm.C02.defBeforeUse", all(v["ok"] for v in loops.values()),
                   {k: v["ok"] for k, v in loops.items()})
    ctx.sample({"extracted corr_scoring loop": loops["corr"]["ops"]})

    # ---- rotation chunking
    import contextlib
    import io
    for _ in range(ctx.budget(60, 400)):
        n = int(rng.integers(1, 40))
        nj = int(rng.integers(1, 20))
        with contextlib.redirect_stdout(io.StringIO()):
            md = MatchingData(target=np.zeros((4, 4, 4), np.float32), template=np.zeros((2, 2, 2), np.float32),
                              rotations=np.arange(n * 9, dtype=np.float32).reshape(n, 3, 3))
        chunks = md._split_rotations_on_jobs(nj)
        impl = [[int(c[i, 0, 0]) // 9 for i in range(c.shape[0])] for c in chunks]
        ctx.agree("_split_rotations_on_jobs", {"n": n, "nJobs": nj}, impl, d.call("c02.splitRotations", n=n, nJobs=nj))
        flat = [x for c in impl for x in c]
        ctx.spec("rotation chunks: concatenation is the list", {"n": n, "nJobs": nj}, flat == list(range(n)) and len(impl) == nj,
                 impl, key="split_rotations")
        ctx.distinct(("chunks", n, nj))
        ctx.count("chunks:" + ("jobs>rotations" if nj > n else "jobs<=rotations"))

    # ---- histories: the array emitted for a rotation does not depend on what was scored before it
    nh = ctx.budget(14, 70)
    for it in range(nh):
        score = S.SCORES[it % 7]
        nd = 2 if it % 3 else 3
        ns, ms, target, template, mask, tmask, R = _make(rng, nd, score)
        r, r2 = R[0], R[-1]
        if it % 2 == 0:
            # the rotation scored before is an interpolated one (its rotated mask has another volume than a grid rotation's),
            # the mask is not the full box and, for the doubly-masked score, the target mask excludes a region
            if nd == 3:
                from scipy.spatial.transform import Rotation
                r2 = Rotation.from_euler("zyx", [float(x) for x in rng.uniform(20, 70, size=3)], degrees=True).as_matrix()
            else:
                a_ = float(rng.uniform(0.4, 1.2))
                r2 = np.array([[np.cos(a_), -np.sin(a_)], [np.sin(a_), np.cos(a_)]])
            if score not in ("CC", "LCC"):
                mask = np.ones(ms)
                mask[(0,) * nd] = 0
                mask[(-1,) + (0,) * (nd - 1)] = 0
            if score == "MCC":
                tmask = np.ones(ns)
                tmask[tuple(slice(0, max(1, n // 3)) for n in ns)] = 0
        outs = {}
        for name, hist in (("[r]", [r]), ("[r',r]", [r2, r]), ("[r,r',r]", [r, r2, r])):
            S.Recorder.log = []
            S.run_scan(score, target, template, mask=mask, target_mask=tmask, rotations=np.stack(hist), pad=bool(it % 2),
                       callback_class=S.Recorder, callback_args={})
            outs[name] = [a for (_, a) in S.Recorder.log]
        ok = len(outs["[r]"]) == 1 and len(outs["[r',r]"]) == 2 and len(outs["[r,r',r]"]) == 3
        dmax = 0.0
        if ok:
            base = outs["[r]"][0]
            for arr in (outs["[r',r]"][1], outs["[r,r',r]"][0], outs["[r,r',r]"][2]):
                dmax = max(dmax, float(np.max(np.abs(arr - base))))
            ok = dmax <= 1e-6 * max(1.0, float(np.max(np.abs(base))))
        inp = {"score": score, "ns": ns, "ms": ms, "pad": bool(it % 2), "mask": mask is not None, "earlier_rotation_interpolated": bool(it % 2 == 0),
               "r": np.asarray(r).tolist(), "r_earlier": np.asarray(r2).tolist()}
        ctx.spec("score map of a rotation independent of earlier rotations in the worker", inp, ok, {"max diff": dmax},
                 key=f"history:{score}")
        ctx.distinct(("history", score, tuple(ns), tuple(ms), bool(it % 2)))
        ctx.count("history:" + score)

    # ---- splitting / schedules / rotation order
    nsplit = ctx.budget(42, 400)
    nproc = ctx.budget(8, 60)
    for it in range(nsplit):
        score = S.SCORES[it % 7]
        nd = 2 if it % 4 else 3
        ns, ms, target, template, mask, tmask, R = _make(rng, nd, score)
        pad = bool(rng.random() < 0.6)
        pe = bool(rng.random() < 0.65)
        splits = _rand_splits(rng, ns, ms)
        multi = it < nproc
        schedule = (1, 1)
        if multi:
            schedule = [(2, 1), (1, 2), (2, 2), (3, 1), (1, len(R) + 2), (4, 2), (2, 3), (1, 3)][it % 8]
        perm = rng.permutation(len(R))
        common = dict(mask=mask, target_mask=tmask, pad=pad, pad_edges=pe)
        S.set_precision(True)     # float64 in this process *and* (backend re-selected per worker) in every worker process
        try:
            ref = S.run_subsets(score, target, template, rotations=R, splits={}, schedule=(1, 1), dtype=np.float64, **common)
            got = S.run_subsets(score, target, template, rotations=R[perm], splits=splits, schedule=schedule, dtype=np.float64, **common)
            inp = {"score": score, "ns": ns, "ms": ms, "splits": {str(k): v for k, v in splits.items()}, "schedule": list(schedule),
                   "perm": perm.tolist(), "pad_fourier": pad, "pad_edges": pe, "n_rot": len(R), "mask": mask is not None}
            rs, gs = np.asarray(ref[0], np.float64), np.asarray(got[0], np.float64)
            if not (rs.shape == gs.shape == tuple(ns)):
                ctx.spec("aggregated map has the target's shape", inp, False, {"ref": rs.shape, "got": gs.shape}, key="split:shape")
                continue
            tiles = split_shape(tuple(ns), splits)
            ntiles = len(tiles)
            # a position is *safe* when, in every tile that reports it, its template window lies inside that tile
            # (tiles of equal extent overlap and the merge takes the maximum, so one bad tile spoils the voxel);
            # LCC additionally filters each tile with a wrap-around Laplacian: keep one voxel away from tile faces
            covered = np.zeros(ns, bool)
            bad = np.zeros(ns, bool)
            edge = np.zeros(ns, bool)
            for t in tiles:
                box = tuple(slice(s_.start, s_.stop) for s_ in t)
                covered[box] = True
                good = np.zeros([s_.stop - s_.start for s_ in t], bool)
                sl, empty = [], False
                for s_, m in zip(t, ms):
                    lo, hi = m // 2, (s_.stop - s_.start) - 1 - (m - 1) // 2
                    if hi < lo:
                        empty = True
                    sl.append(slice(lo, hi + 1))
                if not empty:
                    good[tuple(sl)] = True
                bad[box] |= ~good
                inner = np.zeros_like(good)
                inner[tuple(slice(m // 2 + 1, max(m // 2 + 1, (s_.stop - s_.start) - 1 - (m - 1) // 2)) if not pe else
                            slice(1, max(1, (s_.stop - s_.start) - 1)) for s_, m in zip(t, ms))] = True
                edge[box] |= ~inner
            in_tile = covered & ~bad
            inside_target = S.inside_mask(ns, ms)
            tol = 1e-7 if score not in ("CC", "LCC") else 1e-9 * max(1.0, float(np.max(np.abs(rs))))
            diff = np.abs(rs - gs)
            special = None
            if score == "LCC" and ntiles > 1:
                special = "LCC:laplace-filter-per-tile"
            generic = bool(np.any(np.abs(np.abs(R) - np.rint(np.abs(R))) > 1e-6))
            if score == "CAM" and ntiles > 1 and (mask is not None or generic):
                special = "CAM:standardised-per-tile"
            if pe:
                sel = ~edge if score == "LCC" else np.ones(ns, bool)
                if score == "CAM" and special:
                    sel = np.zeros(ns, bool)
                ok = bool(diff[sel].max() <= tol) if sel.any() else True
                ctx.spec("edge padding: aggregated map independent of splits / schedule / rotation order", inp, ok,
                         {"max diff": float(diff[sel].max()) if sel.any() else 0.0, "tiles": ntiles}, key=f"split:padded:{score}")
                if special and (~sel).any():
                    ctx.spec("edge padding: the *whole* aggregated map is independent of the splits", inp,
                             bool(diff[~sel].max() <= tol), {"max diff": float(diff[~sel].max()), "tiles": ntiles},
                             key=special, size=int(np.prod(ns)))
            else:
                sel = in_tile & (~edge if score == "LCC" else True)
                if score == "CAM" and special:
                    sel = np.zeros(ns, bool)
                ok1 = bool(diff[sel].max() <= tol) if sel.any() else True
                ctx.spec("no edge padding: translations whose window lies inside every tile that reports them agree", inp, ok1,
                         {"max diff": float(diff[sel].max()) if sel.any() else 0.0, "tiles": ntiles}, key=f"split:nopad:inside-tile:{score}")
                rest = inside_target & ~sel
                if rest.any():
                    ctx.spec("no edge padding: every translation whose window lies inside the target agrees", inp,
                             bool(diff[rest].max() <= tol),
                             {"max diff": float(diff[rest].max()), "tiles": ntiles, "voxels": int(rest.sum())},
                             key=special or "scan_subsets:nopad-internal-border", size=int(np.prod(ns)))
            # a rotation that attains the value: identifiers map back through the table to a rotation whose own
            # (identically tiled) map attains the aggregated value
            try:
                rot_ids = np.asarray(got[2])
                tab = dict(got[3])
                table = {}
                for k, v in tab.items():
                    if isinstance(k, (bytes, bytearray)):
                        table[int(v)] = np.frombuffer(k, dtype=np.float32 if len(k) == 4 * nd * nd else np.float64).reshape(nd, nd).astype(np.float32)
                    else:
                        table[int(k)] = np.asarray(v, dtype=np.float32).reshape(nd, nd)
                ids = sorted(set(int(x) for x in np.unique(rot_ids)))
                ok3 = all(i in table for i in ids if i >= 0) and len(table) <= len(R)
                if ok3 and len(R) <= 6:
                    att = np.full(ns, np.nan)
                    for i in ids:
                        if i < 0:
                            continue
                        single = S.run_subsets(score, target, template, rotations=table[i][None], splits=splits, schedule=(1, 1),
                                               dtype=np.float64, **common)
                        m_ = np.asarray(single[0], np.float64)
                        att[rot_ids == i] = m_[rot_ids == i]
                    selr = rot_ids >= 0
                    ok3 = bool(np.nanmax(np.abs(att - gs)[selr]) <= 10 * tol + 1e-6) if selr.any() else True
                ctx.spec("stored rotation identifier maps to a rotation that attains the aggregated value", inp, ok3,
                         {"ids": ids[:8], "table": len(table)}, key=f"split:rotation-attains:{score}")
            except Exception as e:   # result tuple layout changed: correspondence, not a verdict
                ctx.agree("result tuple layout (scores, offset, rotations, rotation table)", inp, repr(e), "ok")
        finally:
            S.set_precision(False)
        ctx.distinct(("split", score, tuple(ns), tuple(ms), tuple(sorted(splits.items())), schedule, tuple(perm.tolist()), pad, pe))
        ctx.count("split:" + ("padded" if pe else "nopad"))
        ctx.count("schedule:" + ("multi-process" if multi else "in-process"))
        ctx.count(f"tiles:{min(ntiles, 9)}")
        ctx.count("score:" + score)
        if it < 2:
            ctx.sample(inp)

    # ---- inner jobs only (no tiles): every voxel must agree exactly with the single-job run, for every kind of mask
    masked = [x for x in ("FLC", "FLCSphericalMask", "CORR", "CAM", "MCC") if x in S.SCORES]
    for it in range(ctx.budget(6, 50)):
        score = masked[it % len(masked)]
        nd = 2 if it % 3 else 3
        ns, ms, target, template, mask, tmask, R = _make(rng, nd, score)
        kind = ["soft", "binary", "none"][(it // len(masked) + it) % 3] if score != "MCC" else "binary"
        if it == 0:
            kind = "soft"
        if kind == "none":
            mask = None
        else:
            mask = (rng.random(ms) < 0.8).astype(np.float64)
            if mask.sum() < 3 or template[mask > 0].std() == 0:
                mask = np.ones(ms)
            if kind == "soft":
                mask = mask * rng.choice([0.25, 0.5, 0.75, 1.0], size=ms)
        if score == "FLCSphericalMask" and mask is not None:
            mask = np.maximum.reduce([S.rotate_grid(mask, p_, f_) for p_, f_, _ in S.grid_rotations(nd) if S.rot_ok_for_shape(p_, ms)])
        k = [2, 3, len(R) + 2, 4][it % 4]
        pad = bool(it % 2)
        S.set_precision(True)
        try:
            common = dict(mask=mask, target_mask=tmask, pad=pad, pad_edges=False, rotations=R, splits={}, dtype=np.float64)
            ref = S.run_subsets(score, target, template, schedule=(1, 1), **common)
            got = S.run_subsets(score, target, template, schedule=(1, k), **common)
        finally:
            S.set_precision(False)
        inp = {"score": score, "ns": ns, "ms": ms, "schedule": [1, k], "n_rot": len(R), "mask_kind": kind, "pad_fourier": pad,
               "target": target.tolist(), "template": template.tolist(), "mask": None if mask is None else mask.tolist(),
               "rotations": np.asarray(R).tolist()}
        a, b = np.asarray(ref[0], np.float64), np.asarray(got[0], np.float64)
        ok = a.shape == b.shape and bool(np.max(np.abs(a - b)) <= 1e-7)
        ctx.spec("inner jobs: aggregated map equals the single-job run on every voxel", inp, ok,
                 {"max diff": float(np.max(np.abs(a - b))) if a.shape == b.shape else None}, key=f"innerjobs:{score}")
        ctx.distinct(("innerjobs", score, tuple(ns), tuple(ms), k, kind, pad))
        ctx.count("innerjobs:mask=" + kind)

    # ---- per-tile correspondence with the Lean model in the `valid` frame (CC, exact integers)
    for it in range(ctx.budget(6, 40)):
        nd = 2 if it % 2 == 0 else 3
        ms = [int(x) for x in rng.integers(2, 4, size=nd)]
        ns = [int(rng.integers(2 * m + 1, 2 * m + (6 if nd == 2 else 3))) for m in ms]
        target = rng.integers(-4, 5, size=ns)
        template = rng.integers(-4, 5, size=ms)
        pad = bool(it % 3)
        with contextlib.redirect_stdout(io.StringIO()):
            md = MatchingData(target=target.astype(np.float32), template=template.astype(np.float32))
            sl = tuple(slice(int(a), int(b)) for a, b in ((lambda a: (a, int(rng.integers(a + 1, n + 1))))(int(rng.integers(0, n))) for n in ns))
            sub = md.subset_by_slice(target_slice=sl, target_pad=np.array(md.target_padding(pad_target=True)))
        tile = np.asarray(sub._target, np.float64)
        from tme.matching_exhaustive import scan, MATCHING_EXHAUSTIVE_REGISTER
        from tme.analyzer import MaxScoreOverRotations
        with contextlib.redirect_stdout(io.StringIO()):
            fp = sub.fourier_padding(pad_fourier=pad)
            res = scan(sub, *MATCHING_EXHAUSTIVE_REGISTER["CC"], n_jobs=1, callback_class=MaxScoreOverRotations,
                       callback_class_args={"score_threshold": -1e30}, pad_fourier=pad)
        sc = np.rint(np.asarray(res[0], np.float64)).astype(np.int64)
        r = d.call("c01.int", score="CC", pad=pad, mode="valid", ns=list(tile.shape), ms=ms, Ns=[int(x) for x in fp[1]],
                   perm=list(range(nd)), flip=[False] * nd, eps=1e-7, target=[int(x) for x in np.rint(tile).reshape(-1)],
                   template=[int(x) for x in template.reshape(-1)])
        inp = {"ns": ns, "ms": ms, "slice": [[s.start, s.stop] for s in sl], "pad": pad, "tile_shape": list(tile.shape)}
        ext = [s.stop - s.start for s in sl]
        ctx.agree("padded tile: cropped score map has the tile's extent", inp, list(sc.shape), ext)
        if list(sc.shape) == ext and len(r["impl"]) == int(np.prod(ext)):
            ctx.agree("padded tile (valid frame): score map == Lean implementation model", inp, sc.reshape(-1).tolist(), r["impl"])
            # spec: the tile reports, at its position j, the windowed sum at the global translation start + j
            W = S.windows(target.astype(np.float64), ms)
            full = (W * template).sum(axis=tuple(range(nd, 2 * nd)))
            glob = np.rint(full[sl]).astype(np.int64)
            inside = S.inside_mask(ns, ms)[sl]
            ctx.spec("tile offset places scores: tile value at j == definition at start + j (windows inside the volume)", inp,
                     bool(np.array_equal(sc[inside], glob[inside])), key="tile:offset")
        ctx.distinct(("tile", tuple(ns), tuple(ms), tuple((s.start, s.stop) for s in sl), pad))
        ctx.count("tile-valid-frame")


def search(ctx):
    """The extracted loops no longer pass / correspondence broke: hunt for a history or a split that shows it."""
    rng = ctx.rng("search")
    for it in range(28):
        score = S.SCORES[it % 7]
        nd = 2 if it % 2 else 3
        ns, ms, target, template, mask, tmask, R = _make(rng, nd, score)
        rots = [r[2] for r in S.grid_rotations(nd) if S.rot_ok_for_shape(r[0], ms)]
        r, r2 = rots[0], rots[-1]
        outs = {}
        for name, hist in (("a", [r]), ("b", [r2, r]), ("c", [r, r2, r])):
            S.Recorder.log = []
            S.run_scan(score, target, template, mask=mask, target_mask=tmask, rotations=np.stack(hist), pad=bool(it % 2),
                       callback_class=S.Recorder, callback_args={})
            outs[name] = [a for (_, a) in S.Recorder.log]
        base = outs["a"][0]
        dmax = max(float(np.max(np.abs(x - base))) for x in (outs["b"][1], outs["c"][0], outs["c"][2]))
        ctx.spec("score map of a rotation independent of earlier rotations in the worker",
                 {"score": score, "ns": ns, "ms": ms, "pad": bool(it % 2)}, dmax <= 1e-6 * max(1.0, float(np.max(np.abs(base)))),
                 {"max diff": dmax}, key=f"history:{score}")
