"""C02 — match results do not depend on splitting, job schedule or rotation order.

Leg A tie: the per-rotation loop bodies of corr/flc/mcc_scoring are *translated from /repo's source on every run*
(pv/c02_extract.py -> lean/PytmeModel/Extracted/C02.lean) and `scoring_loops_history_free` is re-proved about them.
Leg B: real scan / scan_subsets under split dictionaries, job schedules, rotation orders and histories, for targets
handed over in every representation the library accepts (C / Fortran / strided / read-only arrays, float32, integers,
numpy.memmap, Density in memory and memory-mapped from an MRC file), analyzer options (thresholds incl. ties, memory-
mapped result arrays), contrast inversion, spline orders, intensity scales and offsets; the orchestration itself (which
jobs scan_subsets creates, what scan hands to its analyzers, the two merge calls) recorded on the real functions and
compared with Pm.C02.enumJobs, and integer-valued searches end to end against Pm.C02.scanSubsetsRun."""
import contextlib
import io
import os
import warnings

import numpy as np

from .. import scoring as S
from .. import c02_extract as X
from .. import env as E

ID = "C02"
RULE = ("split dictionaries with 1..5 parts on any subset of axes (tiles down to 2 voxels with edge padding), job schedules "
        "(outer, inner) incl. more jobs than rotations / tiles and real worker processes (pairs of same-shaped searches on "
        "reused workers), direct scan(n_jobs) against scan_subsets, permuted / chunked rotation lists of 1..6 rotations (grid "
        "rotations plus a generic one, spline order 1 or 3, point-symmetric templates = tied rotations), pad_fourier on/off, "
        "edge padding on/off, all 7 scores; template extents 2..6, target intensity scales 1e-3..1e3 with offsets of 20 "
        "deviations, template scales 1e-2..1e2; target given as C/Fortran/strided/reversed/read-only/float32/int16 array, "
        "numpy.memmap (float32/float64, with a file offset, Fortran-ordered, a slice of a mapping), Density (in memory, memory-mapped "
        "MRC); templates / masks as Fortran / strided / reversed / read-only arrays; masks and rotations given to the constructor or "
        "assigned afterwards; invert_target; score thresholds -1e30 / default / inside the "
        "score range / equal to a score; use_memmap results; histories [r], [r', r], [r, r', r] with a recording callback; "
        "the orchestration itself: scan_subsets / scan run with a recording analyzer class and logging wrappers around "
        "subset_by_slice, scan and _split_rotations_on_jobs (ranks 2/3, 1-4 parts per axis not dividing the extent, template "
        "parts, schedules (1,1) (2,1) (1,2) (2,2) (1,4) (3,1) (1,3) (3,2), more inner jobs than rotations, edge padding on/off; "
        "joblib.Parallel replaced by a sequential stand-in, and real loky workers) against Pm.C02.enumJobs; integer-valued "
        "searches (CC, grid rotations, thresholds) end to end against Pm.C02.scanSubsetsRun fed with definition-level tile scores. "
        "distinct = distinct (score, shapes, splits, schedule, order permutation, flags, representation) tuples; the "
        "unsplit (1,1) identity-order reference itself is not counted")
ASSUMPTIONS = ["float64 noise between differently tiled FFTs is below 1e-7 on normalised scores; on CC / LCC below "
               "1e-9 max|score| + 1e-13 |target|_2 |template|_2 (x 16 d^2 for the Laplacian)",
               "where a normalised score differs by more than that, the amplification of rounding noise is measured on the reference "
               "(same run on the target scaled by 1 + 2^-21 and by 1 - 3*2^-22: the exact score is unchanged) and 1000 x the measured "
               "change is allowed at that voxel (windows whose variance under the rotated mask nearly vanishes)",
               "MCC problems use templates with pairwise distinct values (a template that is constant on the overlap of the two masks "
               "makes the score 0/0)",
               "loky scheduling beyond the schedules actually run is not explored",
               "orchestration model (Pm.C02.enumJobs / scanSubsetsRun): target and template of equal rank, no batch axes; the "
               "per-(tile, rotation) score arrays enter as a function of the job's slices and the rotation; most recorded runs replace "
               "joblib.Parallel by a sequential stand-in (scan forks a SharedMemoryManager, so several scans cannot share one process as threads)",
               "the buffer-language translation treats a ufunc with out=<buffer> as a full overwrite and "
               "rigid_transform(out=...) as a partial write (it writes out[:template.shape] only)"]
TRUSTED = ["C02: pv/c02_extract.py (AST translator of the three scoring loops into Pm.C02.Prog); joblib/loky process pool"]

KINDS = ["c", "fortran", "strided-view", "reversed-view", "readonly", "float32", "memmap", "memmap64", "memmap-offset", "memmap-fortran",
         "memmap-view", "density", "density-memmap", "int16"]


def extract(ctx):
    try:
        ex = X.write_lean()
        ctx.extra["extracted_loops"] = {k: {"inputs": v[0], "scratch": v[1], "n_ops": len(v[2])} for k, v in ex.items()}
    except X.ExtractError as e:
        ctx.obligation("translate scoring loops (c02_extract)", False, str(e))


@contextlib.contextmanager
def _quiet():
    with contextlib.redirect_stdout(io.StringIO()), warnings.catch_warnings():
        warnings.simplefilter("ignore")
        yield


def _tick(ctx, name):
    """wall time per section -> evidence (coverage.section_seconds)"""
    import time
    now = time.time()
    sec = ctx.extra.setdefault("section_seconds", {})
    sec[name] = round(now - ctx.extra.get("_c02_t", ctx.t0), 1)
    ctx.extra["_c02_t"] = now


def _tol(score, ref, target=None, template=None):
    """float64 error model.  Normalised scores live in [-1, 1]: 1e-7.  CC / LCC are sums over an N-point FFT: the error
    is bounded by c*eps*log2(N)*|f|_2*|g|_2 (c a small constant, log2 N <= 14 here, so < 100 eps): allow 450 eps; the
    Laplacian (LCC) multiplies each norm by at most 4d."""
    if score not in ("CC", "LCC"):
        return 1e-7
    t = 1e-9 * float(np.max(np.abs(ref))) if np.size(ref) else 0.0
    if target is not None and template is not None:
        f = float(np.sqrt(np.sum(np.square(np.asarray(target, np.float64)))))
        g = float(np.sqrt(np.sum(np.square(np.asarray(template, np.float64)))))
        t += 1e-13 * f * g * ((4 * np.ndim(template)) ** 2 if score == "LCC" else 1.0)
    return max(t, 1e-300)


PROBES = (1.0 + 2.0 ** -21, 1.0 - 3 * 2.0 ** -22)


def _measured_noise(score, run_scaled, ref_map):
    """Conditioning, measured.  A normalised score does not change when the target is multiplied by a constant; what a
    factor that is not a power of two changes is every rounding.  The difference between the reference and the same run on
    target * (1 + 2^-21) and target * (1 - 3 * 2^-22) therefore shows, voxel by voxel, how far rounding noise is amplified
    (1e-16 where the window statistics are well conditioned; up to O(1) where a window's variance under the rotated mask
    nearly vanishes and the score is a quotient of two numbers at noise level).  None for the unnormalised scores (their
    tolerance already is a norm bound)."""
    if score in ("CC", "LCC"):
        return None
    out = None
    for s_ in PROBES:
        m = run_scaled(s_)
        if m is None or np.shape(m) != np.shape(ref_map):
            return None
        m = np.abs(np.asarray(m, np.float64) - ref_map)
        out = m if out is None else np.maximum(out, m)
    return out


def _agrees(diff, sel, tol, noise_fn):
    """(ok, detail): |diff| <= tol on `sel`; where that fails, <= tol + 1000 x the measured amplification of rounding noise"""
    if not sel.any():
        return True, {"max diff": 0.0, "tol": tol}
    d = float(diff[sel].max())
    if d <= tol:
        return True, {"max diff": d, "tol": tol}
    N = noise_fn() if noise_fn is not None else None
    if N is None or N.shape != diff.shape:
        return False, {"max diff": d, "tol": tol, "voxels": int((sel & (diff > tol)).sum())}
    bad = sel & (diff > tol + 1e3 * N)
    det = {"max diff": d, "tol": tol, "ill-conditioned voxels (measured noise > tol / 1000)": int((sel & (N > tol * 1e-3)).sum()),
           "voxels beyond tol + 1000 x measured noise": int(bad.sum())}
    if bad.any():
        det["max diff among them"] = float(diff[bad].max())
        det["measured noise there"] = float(N[bad].max())
    return not bad.any(), det


def _make(rng, nd, score, like=None, plain=False):
    """One matching problem.  `like=(ns, ms)` fixes the shapes (pairs of searches that share every array shape).
    `plain` keeps the classic ranges (templates 2..4, unit scale) for the streams that compare against the Lean model."""
    if like is not None:
        ns, ms = [int(x) for x in like[0]], [int(x) for x in like[1]]
    else:
        hi = 5 if plain else (7 if nd == 2 else 6)
        ms = [int(rng.integers(2, hi))] * nd if rng.random() < 0.7 else [int(x) for x in rng.integers(2, hi, size=nd)]
        lo = 3 * max(ms)
        ns = [int(rng.integers(lo, lo + (8 if nd == 2 else 4))) for _ in range(nd)]
    sc_t = 1.0 if plain else float(rng.choice([1e-3, 1.0, 1.0, 1e3]))
    off_t = 0.0 if plain else float(rng.choice([0.0, 0.0, 20.0])) * sc_t
    sc_g = 1.0 if plain else float(rng.choice([1e-2, 1.0, 1.0, 1e2]))
    off_g = 0.0 if plain else float(rng.choice([0.0, 0.0, 10.0])) * sc_g
    target = (rng.integers(-4, 5, size=ns).astype(np.float64) + rng.random(ns) * 0.25) * sc_t + off_t
    target = target.astype(np.float32).astype(np.float64)          # representable in every container used below
    template = rng.integers(-4, 5, size=ms).astype(np.float64)
    sym = (not plain) and rng.random() < 0.15 and score != "MCC"
    if score == "MCC" and not plain:
        # the doubly-masked score normalises by the template's variance on the *overlap* of the masks, which changes from
        # translation to translation: with lattice values a two-voxel overlap is constant one time in nine and the score 0/0
        template = template + rng.random(ms) * 0.5
    rev = (slice(None, None, -1),) * nd
    if sym:                       # point-symmetric template: a rotation and its composition with the point reflection tie
        template = template + template[rev]
    if template.std() == 0:
        template.flat[0] += 1
    template = template * sc_g + off_g
    mask = None
    if score not in ("CC", "LCC") and rng.random() < 0.5:
        mask = (rng.random(ms) < 0.75).astype(np.float64)
        if sym:
            mask = np.maximum(mask, mask[rev])
        if mask.sum() < 3 or template[mask > 0].std() == 0:
            mask = None
        elif score != "MCC" and rng.random() < 0.5:
            # soft-edged mask (fractional weights): splits, schedules and histories must not matter for these either
            w = rng.choice([0.25, 0.5, 0.75, 1.0], size=ms)
            mask = mask * (np.minimum(w, w[rev]) if sym else w)
    tmask = (rng.random(ns) < 0.9).astype(np.float64) if score == "MCC" else None
    rots = [r for r in S.grid_rotations(nd) if S.rot_ok_for_shape(r[0], ms)]
    sel = rng.permutation(len(rots))[: int(rng.integers(1 if not plain else 2, min(len(rots), 5) + 1))]
    R = [rots[i][2] for i in sel]
    if rng.random() < 0.4:       # one generic (interpolated) rotation: deterministic per tile, so invariance still holds
        from scipy.spatial.transform import Rotation
        if nd == 3:
            R.append(Rotation.random(random_state=int(rng.integers(0, 10 ** 6))).as_matrix())
        else:
            a = float(rng.uniform(0, 2 * np.pi))
            R.append(np.array([[np.cos(a), -np.sin(a)], [np.sin(a), np.cos(a)]]))
    return ns, ms, target, template, mask, tmask, np.stack(R)


def _rand_splits(rng, ns, ms, pe=False, max_tiles=12):
    """1..5 parts on a random subset of axes.  Without edge padding tiles keep room for a window (extent > template); with
    edge padding every tile extent >= 2 is legitimate (the margin comes from the neighbours / the mirrored border)."""
    splits = {}
    for ax, n in enumerate(ns):
        if rng.random() < 0.6:
            kmax = max(1, min(5, n // 2)) if pe else max(1, min(5, n // (max(ms) + 1)))
            splits[ax] = int(rng.integers(1, kmax + 1))
    if all(v == 1 for v in splits.values()):
        splits[int(rng.integers(0, len(ns)))] = 2
    for _ in range(8):            # bounded: keep the number of tiles (40 ms of process set-up each) within the budget
        if int(np.prod(list(splits.values()))) <= max_tiles:
            break
        ax = max(splits, key=lambda k: splits[k])
        splits[ax] -= 1
    return splits


def _generic(rng, nd):
    """a rotation that needs interpolation"""
    if nd == 3:
        from scipy.spatial.transform import Rotation
        return Rotation.from_euler("zyx", [float(x) for x in rng.uniform(20, 70, size=3)], degrees=True).as_matrix()
    a = float(rng.uniform(0.4, 1.2))
    return np.array([[np.cos(a), -np.sin(a)], [np.sin(a), np.cos(a)]])


def _is_generic(R):
    return bool(np.any(np.abs(np.abs(R) - np.rint(np.abs(R))) > 1e-6))


def _try(ctx, inp, key, fn):
    """an exception of the library on a legitimate request is a failure of the property with this very input"""
    try:
        return fn()
    except Exception as e:
        ctx.spec("the search completes for this tiling / schedule / representation / option set", inp, False,
                 {"exception": repr(e)[:600]}, key=key)
        return None


_COUNTER = [0]


def _path(ext):
    _COUNTER[0] += 1
    return os.path.join(E.scratch(), f"c02_{os.getpid()}_{_COUNTER[0]}{ext}")


def _as_kind(arr, kind, files):
    """the same values in another container (arr holds float32-representable float64 values)"""
    a = np.ascontiguousarray(arr, dtype=np.float64)
    if kind == "fortran":
        return np.asfortranarray(a)
    if kind == "strided-view":
        big = np.full(tuple(2 * n + 3 for n in a.shape), 777.0)
        v = big[tuple(slice(2, 2 + 2 * n, 2) for n in a.shape)]
        v[...] = a
        return v
    if kind == "reversed-view":
        rev = (slice(None, None, -1),) * a.ndim
        return np.ascontiguousarray(a[rev])[rev]
    if kind == "readonly":
        b = a.copy()
        b.setflags(write=False)
        return b
    if kind == "float32":
        return a.astype(np.float32)
    if kind == "int16":
        return a.astype(np.int16)
    if kind in ("memmap", "memmap64"):
        p = _path(".raw")
        files.append(p)
        dt = np.float32 if kind == "memmap" else np.float64
        mm = np.memmap(p, mode="w+", dtype=dt, shape=a.shape)
        mm[:] = a
        mm.flush()
        del mm
        return np.memmap(p, mode="r", dtype=dt, shape=a.shape)
    if kind == "memmap-offset":          # the data section of a file with a header (what mapping an MRC file by hand gives)
        p = _path(".raw")
        files.append(p)
        with open(p, "wb") as f:
            f.write(b"\x07" * 1024)
            f.write(a.astype(np.float32).tobytes())
        return np.memmap(p, mode="r", dtype=np.float32, shape=a.shape, offset=1024)
    if kind == "memmap-fortran":
        p = _path(".raw")
        files.append(p)
        mm = np.memmap(p, mode="w+", dtype=np.float32, shape=a.shape, order="F")
        mm[:] = a
        mm.flush()
        del mm
        return np.memmap(p, mode="r", dtype=np.float32, shape=a.shape, order="F")
    if kind == "memmap-view":            # a slice of a larger mapping
        p = _path(".raw")
        files.append(p)
        big = tuple(n + 3 for n in a.shape)
        mm = np.memmap(p, mode="w+", dtype=np.float32, shape=big)
        mm[:] = 555.0
        mm[tuple(slice(2, 2 + n) for n in a.shape)] = a
        mm.flush()
        del mm
        return np.memmap(p, mode="r", dtype=np.float32, shape=big)[tuple(slice(2, 2 + n) for n in a.shape)]
    if kind in ("density", "density-memmap"):
        from tme import Density
        dens = Density(a.astype(np.float32), origin=np.zeros(a.ndim), sampling_rate=np.ones(a.ndim))
        if kind == "density":
            return dens
        p = _path(".mrc")
        files.append(p)
        with _quiet():
            dens.to_file(p)
            return Density.from_file(p, use_memmap=True)
    return a.copy()


def _cleanup(files):
    for p in files:
        try:
            os.remove(p)
        except OSError:
            pass
    del files[:]


def _subsets(score, target, template, mask, tmask, R, *, splits=None, schedule=(1, 1), pad=True, pe=False, order=3,
             cargs=None, invert=False, raw_template=False, late=False):
    """real scan_subsets; `target` / `tmask` (and with raw_template the template and its mask) are handed over as they are"""
    from tme.matching_data import MatchingData
    from tme.matching_exhaustive import scan_subsets, MATCHING_EXHAUSTIVE_REGISTER
    from tme.analyzer import MaxScoreOverRotations
    with _quiet():
        g = template if raw_template else np.array(template, dtype=np.float64)
        gm = None if mask is None else (mask if raw_template else np.array(mask, dtype=np.float64))
        if late:      # the way the documentation's example does it: masks and rotations assigned after construction
            md = MatchingData(target=target, template=g, invert_target=invert)
            if gm is not None:
                md.template_mask = gm
            if tmask is not None:
                md.target_mask = tmask
            md.rotations = np.array(R, dtype=np.float64)
        else:
            md = MatchingData(target=target, template=g, template_mask=gm, target_mask=tmask, rotations=np.array(R, dtype=np.float32),
                              invert_target=invert)
        setup, scoring = MATCHING_EXHAUSTIVE_REGISTER[score]
        return scan_subsets(md, scoring, setup, callback_class=MaxScoreOverRotations,
                            callback_class_args=dict({"score_threshold": -1e30} if cargs is None else cargs),
                            job_schedule=tuple(schedule), target_splits=dict(splits or {}), pad_target_edges=pe,
                            pad_fourier=pad, interpolation_order=order)


def _scan_direct(score, target, template, mask, tmask, R, *, n_jobs=1, pad=True, order=3, cargs=None):
    """real scan on the whole (unsplit, unpadded) data: the other public entry point with a job count"""
    from tme.matching_data import MatchingData
    from tme.matching_exhaustive import scan, MATCHING_EXHAUSTIVE_REGISTER
    from tme.analyzer import MaxScoreOverRotations
    with _quiet():
        md = MatchingData(target=np.array(target, dtype=np.float64), template=np.array(template, dtype=np.float64),
                          template_mask=None if mask is None else np.array(mask, dtype=np.float64),
                          target_mask=None if tmask is None else np.array(tmask, dtype=np.float64),
                          rotations=np.array(R, dtype=np.float32))
        setup, scoring = MATCHING_EXHAUSTIVE_REGISTER[score]
        return scan(md, setup, scoring, n_jobs=n_jobs, callback_class=MaxScoreOverRotations,
                    callback_class_args=dict({"score_threshold": -1e30} if cargs is None else cargs),
                    pad_fourier=pad, interpolation_order=order)


def _dump(inp, **arrays):
    """a failing input whose arrays are too large for the replay record: the arrays go next to the replays"""
    if not isinstance(inp, dict) or inp.get("data") is not None or "data_file" in inp:
        return
    try:
        import hashlib
        import json
        d = os.path.join(E.VERIF, "replays")
        os.makedirs(d, exist_ok=True)
        h = hashlib.sha1(json.dumps({k: v for k, v in inp.items() if k != "data"}, sort_keys=True, default=str).encode()).hexdigest()[:12]
        path = os.path.join(d, f"C02_input_{h}.npz")
        np.savez_compressed(path, **{k: np.asarray(v) for k, v in arrays.items() if v is not None})
        inp["data_file"] = os.path.relpath(path, E.VERIF)
    except Exception as e:      # diagnostics only
        inp["data_file"] = "not written: " + repr(e)[:200]


def _data(target, template, mask, tmask, R, limit=1600):
    """the arrays themselves for the replay when they are small"""
    if np.size(target) > limit:
        return None
    return {"target": np.asarray(target).tolist(), "template": np.asarray(template).tolist(),
            "template_mask": None if mask is None else np.asarray(mask).tolist(),
            "target_mask": None if tmask is None else np.asarray(tmask).tolist(), "rotations": np.asarray(R).tolist()}


def _tile_geometry(ns, ms, tiles, pe):
    """covered / bad / edge voxel sets of a tiling (see the clauses below)"""
    covered = np.zeros(ns, bool)
    bad = np.zeros(ns, bool)
    edge = np.zeros(ns, bool)
    for t in tiles:
        box = tuple(slice(s_.start, s_.stop) for s_ in t)
        covered[box] = True
        good = np.zeros([s_.stop - s_.start for s_ in t], bool)
        sl, empty = [], False
        for s_, m in zip(t, ms):
            lo, hi = m // 2, (s_.stop - s_.start) - 1 - (m - 1) // 2
            if hi < lo:
                empty = True
            sl.append(slice(lo, hi + 1))
        if not empty:
            good[tuple(sl)] = True
        bad[box] |= ~good
        inner = np.zeros_like(good)
        inner[tuple(slice(m // 2 + 1, max(m // 2 + 1, (s_.stop - s_.start) - 1 - (m - 1) // 2)) if not pe else
                    slice(1, max(1, (s_.stop - s_.start) - 1)) for s_, m in zip(t, ms))] = True
        edge[box] |= ~inner
    return covered, bad, edge


def _asserted(score, ns, ms, tiles, pe, mask, R):
    """(voxels on which the tiled map must equal the unsplit one, key of the known finding that covers the others, geometry).
    A position is *safe* when, in every tile that reports it, its template window lies inside that tile (tiles of equal
    extent overlap and the merge takes the maximum, so one bad tile spoils the voxel); LCC additionally filters each tile
    with a wrap-around Laplacian: keep one voxel away from tile faces; CAM standardises each tile."""
    covered, bad, edge = _tile_geometry(ns, ms, tiles, pe)
    ntiles = len(tiles)
    special = None
    if score == "LCC" and ntiles > 1:
        special = "LCC:laplace-filter-per-tile"
    generic = bool(np.any(np.abs(np.abs(R) - np.rint(np.abs(R))) > 1e-6))
    if score == "CAM" and ntiles > 1 and (mask is not None or generic):
        special = "CAM:standardised-per-tile"
    if pe:
        sel = ~edge if (score == "LCC" and ntiles > 1) else np.ones(ns, bool)
    else:
        sel = covered & ~bad & (~edge if (score == "LCC" and ntiles > 1) else True)
    if score == "CAM" and special:
        sel = np.zeros(ns, bool)
    return sel, special, (covered, bad, edge)


def _rotation_table(got, nd):
    rot_ids = np.asarray(got[2])
    table = {}
    for k, v in dict(got[3]).items():
        if isinstance(k, (bytes, bytearray)):
            table[int(v)] = np.frombuffer(k, dtype=np.float32 if len(k) == 4 * nd * nd else np.float64).reshape(nd, nd).astype(np.float32)
        else:
            table[int(k)] = np.asarray(v, dtype=np.float32).reshape(nd, nd)
    return rot_ids, table


def _mcc_band(score_fn, R, ns):
    """MCC zeroes a translation when the overlap of the (rotated, spline-smoothed) template mask with the target mask is below
    0.3 * max(overlap) *of the array being scored*, i.e. of the tile (known finding MCC:overlap-threshold-per-tile).  The
    translations on which the tile and the whole target decide differently are read off the single-rotation maps: exactly
    one of the two is exactly 0.  Returns (band, worst difference among the single-rotation maps outside their own band)."""
    band = np.zeros(ns, bool)
    worst = 0.0
    for r in R:
        a, b = score_fn(r[None], False), score_fn(r[None], True)
        if a is None or b is None or a.shape != tuple(ns) or b.shape != tuple(ns):
            return None, float("inf")
        dec = (a == 0.0) != (b == 0.0)
        band |= dec
        worst = max(worst, float(np.max(np.abs(a - b)[~dec])) if (~dec).any() else 0.0)
    return band, worst


# ---------------------------------------------------------------------------------------------------------------------
# the orchestration of scan_subsets / scan, recorded on the real functions (Pm.C02.enumJobs is the model)

def _enum_rotations(nd, n):
    """n pairwise distinct proper rotations (identified again by value when the analyzer is called)"""
    out = []
    for k in range(n):
        a = 0.3 + 0.37 * k
        m = np.eye(nd)
        m[0, 0], m[0, 1], m[1, 0], m[1, 1] = np.cos(a), -np.sin(a), np.sin(a), np.cos(a)
        out.append(m)
    return np.stack(out).astype(np.float32)


class EnumRecorder:
    """callback_class that records how `scan` constructed it, which rotations it was handed, what `_postprocess` was told
    and what the two `merge` calls received.  Module level: loky workers pickle it by reference."""
    shared = True          # as on MaxScoreOverRotations (a property object on the class): one analyzer per inner job

    def __init__(self, shape=None, offset=None, thread_safe=None, convolution_mode=None, targetshape=None, templateshape=None,
                 fourier_shift=None, convolution_shape=None, fast_shape=None, score_threshold=None, **kwargs):
        self.rec = {"shape": [int(x) for x in shape], "offset": [int(x) for x in np.asarray(offset).reshape(-1)],
                    "thread_safe": bool(thread_safe), "convolution_mode": convolution_mode,
                    "targetshape": [int(x) for x in targetshape], "templateshape": [int(x) for x in templateshape],
                    "convolution_shape": [int(x) for x in convolution_shape], "score_threshold": score_threshold,
                    "fourier_shift": None if fourier_shift is None else [int(x) for x in fourier_shift],
                    "rots": [], "post": None}

    def __call__(self, scores, rotation_matrix, **kwargs):
        self.rec["rots"].append([float(x) for x in np.asarray(rotation_matrix, dtype=np.float64).reshape(-1)])
        self.rec.setdefault("score_shapes", []).append([int(x) for x in np.asarray(scores).shape])

    def _postprocess(self, targetshape=None, templateshape=None, convolution_shape=None, fourier_shift=None,
                     convolution_mode=None, **kwargs):
        from tme.matching_utils import apply_convolution_mode
        arr = np.zeros(self.rec["shape"], dtype=np.int8)
        if fourier_shift is not None:
            arr = np.roll(arr, shift=tuple(int(x) for x in fourier_shift), axis=tuple(range(arr.ndim)))
        if convolution_mode is not None:
            arr = apply_convolution_mode(arr, convolution_mode=convolution_mode, s1=targetshape, s2=templateshape,
                                         convolution_shape=convolution_shape)
        self.rec["post"] = {"out_shape": [int(x) for x in arr.shape], "convolution_mode": convolution_mode,
                            "offset": None if kwargs.get("offset") is None else [int(x) for x in np.asarray(kwargs["offset"]).reshape(-1)]}
        return self

    def __iter__(self):
        yield self.rec

    @classmethod
    def merge(cls, stores, **kwargs):
        return {"merge": [s[0] if isinstance(s, tuple) else s for s in stores],
                "score_threshold": kwargs.get("score_threshold"), "inner": "targetshape" in kwargs}


def _enum_real(ns, ms, ts, tms, sched, nrot, pe, backend="sequential", score="CC", pad_fourier=True):
    """real scan_subsets on a small problem with the recording analyzer; subset_by_slice and scan are wrapped (in this
    process) to log the slices, paddings and device numbers.  Returns the canonical record compared with Pm.C02.enumJobs."""
    import joblib
    import tme.matching_exhaustive as MX
    from tme.matching_data import MatchingData
    rng = np.random.default_rng(7)
    R = _enum_rotations(len(ns), nrot)
    log = {"subset": [], "scan": [], "splitrot": [], "parallel": []}
    real_subset, real_scan, real_split = MatchingData.subset_by_slice, MX.scan, MatchingData._split_rotations_on_jobs

    def subset_logged(self, *a, **k):
        ret = real_subset(self, *a, **k)
        log["subset"].append({
            "targetSlice": [[int(x.start), int(x.stop)] for x in k["target_slice"]],
            "templateSlice": [[int(x.start), int(x.stop)] for x in k["template_slice"]],
            "pad": [int(x) for x in k["target_pad"]],
            "offset": [int(x) for x in ret._translation_offset], "valid": bool(ret._is_padded),
            "targetShape": [int(x) for x in ret._target.shape], "templateShape": [int(x) for x in ret._template.shape]})
        return ret

    def scan_logged(*a, **k):
        log["scan"].append({"gpu_index": int(k.get("gpu_index", -1)), "n_jobs": int(k["n_jobs"]),
                            "offset": [int(x) for x in k["matching_data"]._translation_offset]})
        return real_scan(*a, **k)

    def split_logged(self, n_jobs):
        ret = real_split(self, n_jobs)
        log["splitrot"].append({"n_jobs": int(n_jobs), "sizes": [int(c.shape[0]) for c in ret]})
        return ret

    scan_logged.__wrapped__ = real_scan
    with _quiet():
        md = MatchingData(target=rng.standard_normal(ns).astype(np.float32), template=rng.standard_normal(ms).astype(np.float32),
                          rotations=R)
        setup, scoring = MX.MATCHING_EXHAUSTIVE_REGISTER[score]
        MatchingData.subset_by_slice = subset_logged
        real_parallel = MX.Parallel

        class SeqParallel:
            """joblib.Parallel stand-in: runs the delayed calls one after the other in this thread (scan starts a
            SharedMemoryManager, i.e. forks, so running several scans in threads of one process is not an option)"""
            def __init__(self, n_jobs=None, **kw):
                log["parallel"].append(int(n_jobs))

            def __call__(self, tasks):
                return [f(*a, **k) for f, a, k in tasks]

        if backend == "sequential":
            MX.scan = scan_logged
            MX.Parallel = SeqParallel
            MatchingData._split_rotations_on_jobs = split_logged
        try:
            res = MX.scan_subsets(md, scoring, setup, callback_class=EnumRecorder,
                                  callback_class_args={"score_threshold": 0.25}, job_schedule=tuple(sched),
                                  target_splits=dict(ts), template_splits=dict(tms), pad_target_edges=pe,
                                  pad_fourier=pad_fourier)
        finally:
            MatchingData.subset_by_slice = real_subset
            MX.scan = real_scan
            MX.Parallel = real_parallel
            MatchingData._split_rotations_on_jobs = real_split

    def rot_index(flat):
        m = np.array(flat).reshape(R.shape[1:])
        hits = [i for i in range(R.shape[0]) if np.allclose(R[i], m, atol=1e-6)]
        return hits[0] if len(hits) == 1 else -1

    jobs = []
    outer = res["merge"]
    for i, (sub, inner) in enumerate(zip(log["subset"], outer)):
        an = inner["merge"]
        j = dict(sub)
        j["index"] = i
        j["nJobs"] = len(an)
        j["chunks"] = [[rot_index(r) for r in a["rots"]] for a in an]
        j["outShape"] = sorted({tuple(a["post"]["out_shape"]) for a in an})
        j["an_offset"] = sorted({tuple(a["offset"]) for a in an})
        j["an_valid"] = sorted({a["convolution_mode"] for a in an})
        j["an_targetshape"] = sorted({tuple(a["targetshape"]) for a in an})
        j["an_templateshape"] = sorted({tuple(a["templateshape"]) for a in an})
        j["threadSafe"] = sorted({a["thread_safe"] for a in an})
        j["an_conv"] = sorted({tuple(a["convolution_shape"]) for a in an})
        j["an_shift"] = sorted({tuple(a.get("fourier_shift") or ()) for a in an})
        j["inner_merge_is_scan"] = bool(inner["inner"])
        jobs.append(j)
    return {"jobs": jobs, "n_subset": len(log["subset"]), "n_results": len(outer), "outer_threshold": res["score_threshold"],
            "outer_is_scan": bool(res["inner"]), "scan": log["scan"], "splitrot": log["splitrot"], "parallel": log["parallel"]}


def _enum_model_view(mj):
    """the model's job in the shape `_enum_real` reports"""
    return {"targetSlice": mj["targetSlice"], "templateSlice": mj["templateSlice"], "pad": mj["pad"], "offset": mj["offset"],
            "valid": mj["valid"], "targetShape": mj["targetShape"], "templateShape": mj["templateShape"], "index": mj["index"],
            "nJobs": mj["nJobs"], "chunks": mj["chunks"], "outShape": [tuple(mj["outShape"])], "an_offset": [tuple(mj["offset"])],
            "an_valid": ["valid" if mj["valid"] else "same"], "an_targetshape": [tuple(mj["targetShape"])],
            "an_templateshape": [tuple(mj["templateShape"])], "threadSafe": [mj["threadSafe"]], "inner_merge_is_scan": True}


def _enum_stream(ctx, d):
    """structured random configurations: ranks 2/3, 1-4 parts per axis (not dividing the extent), template parts, more inner
    jobs than rotations, edge padding on/off, schedules (1,1), (2,1), (1,2), ...; most with joblib.Parallel replaced by a
    sequential stand-in (every wrapper is visible to every job, the requested job counts are recorded), a few as the code runs
    them: loky worker processes for the outer jobs, nested workers for the inner ones"""
    rng = ctx.rng("enum")
    n = ctx.budget(17, 260)
    nloky = ctx.budget(1, 8)
    SCH = [(1, 1), (2, 1), (1, 2), (2, 2), (1, 4), (3, 1), (1, 3), (3, 2)]
    for it in range(n):
        nd = 2 if it % 3 else 3
        ms = [int(x) for x in rng.integers(1, 5 if nd == 2 else 4, size=nd)]
        ns = [int(rng.integers(max(m, 2) + 2, 14 if nd == 2 else 9)) for m in ms]
        ts = {}
        for ax in range(nd):
            if rng.random() < 0.7:
                k = int(rng.integers(1, 5))
                if ns[ax] % k == 0 and k > 1 and rng.random() < 0.7:
                    k = k + 1 if k < 4 else 3
                ts[ax] = min(k, ns[ax])
        while int(np.prod(list(ts.values()) or [1])) > ctx.budget(8, 24):      # every job forks a SharedMemoryManager
            ax = max(ts, key=ts.get)
            ts[ax] -= 1
        tms = {}
        if it % 6 == 5:
            ax = int(rng.integers(0, nd))
            if ms[ax] >= 2:
                tms[ax] = 2
        sched = SCH[it % len(SCH)] if it >= nloky else [(2, 1), (1, 2), (2, 2)][it % 3]
        nrot = int(rng.integers(1, 6))
        if it % 4 == 1:
            nrot = max(1, sched[1] - 1)          # more inner jobs than rotations (when inner > 1)
        pe = bool(it % 2 == 0) if it % 5 else bool(rng.random() < 0.5)
        backend = "loky" if it < nloky else "sequential"
        inp = {"ns": ns, "ms": ms, "target_splits": {str(k): v for k, v in ts.items()},
               "template_splits": {str(k): v for k, v in tms.items()}, "schedule": list(sched), "nrot": nrot, "pad_target_edges": pe,
               "backend": backend, "pad_fourier": bool(it % 7 != 3)}
        try:
            pad_fourier = bool(it % 7 != 3)
            real = _enum_real(ns, ms, ts, tms, sched, nrot, pe, backend=backend, pad_fourier=pad_fourier)
        except Exception as e:       # the orchestration must not fail on a well-formed request
            ctx.spec("scan_subsets enumerates its jobs without error", inp, False, repr(e)[:300], key="enum:exception")
            continue
        model = d.call("c02.enumJobs", target=ns, template=ms, targetSplits=[ts.get(a, 0) for a in range(nd)],
                       templateSplits=[tms.get(a, 0) for a in range(nd)], outer=sched[0], inner=sched[1], nRot=nrot, padEdges=pe,
                       padFourier=pad_fourier)
        mjobs = [_enum_model_view(j) for j in model["jobs"]]
        fpad = [[list(j.pop("an_conv")), list(j.pop("an_shift"))] for j in real["jobs"]]
        rjobs = [{k: (v if not isinstance(v, list) or not v or not isinstance(v[0], tuple) else [tuple(x) for x in v])
                  for k, v in j.items()} for j in real["jobs"]]
        ctx.agree("scan_subsets job enumeration (slices, paddings, offsets, shapes, modes, rotation chunks per analyzer, order)",
                  inp, rjobs, mjobs)
        ctx.agree("fourier_padding of every job's subset as told to its analyzers (convolution_shape, fourier_shift) == C01's model", inp,
                  fpad, [[[tuple(c)], [tuple(f)]] for c, f in zip(model["convShape"], model["fourierShift"])])
        ctx.agree("merge calls: scan merges one analyzer per chunk, scan_subsets merges one result per job, in job order", inp,
                  [real["n_results"], real["outer_threshold"], real["outer_is_scan"], [len(j["chunks"]) for j in real["jobs"]]],
                  [len(model["mergePlan"]), 0.25, False, [len(l) for l in model["mergePlan"]]])
        if backend == "sequential":
            ctx.agree("joblib.Parallel is created with n_jobs = outer once, then n_jobs = inner once per job", inp,
                      real["parallel"], [sched[0]] + [sched[1]] * len(model["jobs"]))
            ctx.agree("scan calls: device number and job count per job", inp,
                      sorted((s["gpu_index"], s["n_jobs"], tuple(s["offset"])) for s in real["scan"]),
                      sorted((j["gpuIndex"], j["nJobs"], tuple(j["offset"])) for j in model["jobs"]))
            ctx.agree("_split_rotations_on_jobs as called by scan (chunk sizes)", inp,
                      sorted((s["n_jobs"], tuple(s["sizes"])) for s in real["splitrot"]),
                      sorted((j["nJobs"], tuple(len(c) for c in j["chunks"])) for j in model["jobs"]))
        # spec, independent of the model: every (voxel, rotation, template part) is evaluated, and reported at its own position
        cover = np.zeros(ns + [nrot], dtype=np.int64)
        okpos = True
        parts = sorted({tuple(map(tuple, j["templateSlice"])) for j in real["jobs"]})
        for j in real["jobs"]:
            if tuple(map(tuple, j["templateSlice"])) != parts[0]:
                continue
            off, shp = j["an_offset"][0], j["outShape"][0]
            okpos = okpos and list(off) == [s[0] for s in j["targetSlice"]] and len(j["outShape"]) == 1
            if not tms:
                okpos = okpos and list(shp) == [s[1] - s[0] for s in j["targetSlice"]]
            sl = tuple(slice(o, o + e) for o, e in zip(off, shp))
            for c in j["chunks"]:
                for r in c:
                    if 0 <= r < nrot:
                        cover[sl + (r,)] += 1
                    else:
                        okpos = False
        ctx.spec("every (voxel, rotation) pair is evaluated by some job and reported in the box [slice start, slice stop)", inp,
                 bool(okpos and (cover > 0).all()), {"min cover": int(cover.min()), "positions ok": bool(okpos)}, key="enum:coverage")
        ctx.distinct(("enum", tuple(ns), tuple(ms), tuple(sorted(ts.items())), tuple(sorted(tms.items())), tuple(sched), nrot, pe))
        ctx.count("enum:" + backend)
        ctx.count("enum:rank%d" % nd)
        ctx.count("enum:" + ("padded" if pe else "unpadded"))
        if tms:
            ctx.count("enum:template-splits")
        if sched[1] > nrot:
            ctx.count("enum:jobs>rotations")
        if it < 2:
            ctx.sample({"scan_subsets enumeration": inp, "jobs": [{k: j[k] for k in ("targetSlice", "templateSlice", "offset", "chunks")} for j in real["jobs"]][:4]})


@contextlib.contextmanager
def _sequential_parallel():
    """joblib.Parallel inside tme.matching_exhaustive replaced by a stand-in that runs the delayed calls in order, in
    this thread (the orchestration and the analyzers / merge are the library's own)"""
    import tme.matching_exhaustive as MX
    real = MX.Parallel

    class SeqParallel:
        def __init__(self, n_jobs=None, **kw):
            pass

        def __call__(self, tasks):
            return [f(*a, **k) for f, a, k in tasks]

    MX.Parallel = SeqParallel
    try:
        yield
    finally:
        MX.Parallel = real


def _padded_tile(target, sl, pad):
    """the array of one job (C14: neighbouring voxels where the target has them, mirrored ones beyond its ends)"""
    left = [(p + p % 2) // 2 for p in pad]
    dl = [min(a, l) for (a, b), l in zip(sl, left)]
    dr = [min(n - b, l) for (a, b), l, n in zip(sl, left, target.shape)]
    arr = target[tuple(slice(a - x, b + y) for (a, b), x, y in zip(sl, dl, dr))]
    return np.pad(arr, [(l - x, l - y) for l, x, y in zip(left, dl, dr)], mode="reflect")


def _e2e_stream(ctx, d):
    """end to end on integer data (exact): the real scan_subsets (CC, MaxScoreOverRotations, grid rotations) against
    Pm.C02.scanSubsetsRun = Pm.C04.merge over Pm.C02.enumJobs, fed with the per-(job, rotation) score arrays of the
    *definition* (windowed sums on the job's own padded tile, numpy) — the function the theorems scan_subsets_schedule_free /
    scan_subsets_eq_unsplit / match_result_independent_of_splits_schedule_order are about"""
    rng = ctx.rng("e2e")
    n = ctx.budget(7, 120)
    nloky = ctx.budget(0, 6)
    SCH = [(1, 1), (2, 1), (1, 2), (2, 3), (1, 4), (3, 2)]
    for it in range(n):
        nd = 2 if it % 3 else 3
        ms = [int(x) for x in rng.integers(2, 5 if nd == 2 else 4, size=nd)]
        if it % 4 == 0:
            ms = [ms[0]] * nd          # every grid rotation fits
        ns = [int(rng.integers(m + 3, 12 if nd == 2 else 8)) for m in ms]
        ts = {}
        for ax in range(nd):
            if rng.random() < 0.75:
                ts[ax] = int(min(rng.integers(1, 5), ns[ax]))
        while int(np.prod(list(ts.values()) or [1])) > ctx.budget(6, 16):      # every job forks a SharedMemoryManager
            ax = max(ts, key=ts.get)
            ts[ax] -= 1
        grid = [g for g in S.grid_rotations(nd) if S.rot_ok_for_shape(g[0], ms)]
        nrot = int(min(len(grid), rng.integers(1, 5)))
        pick = [grid[i] for i in rng.permutation(len(grid))[:nrot]]
        sched = SCH[it % len(SCH)]
        pe = bool(it % 5 != 4)
        thr = [-10 ** 6, 0, 5][it % 3]
        loky = it < nloky and sched != (1, 1)
        target = rng.integers(-4, 5, size=ns).astype(np.float64)
        template = rng.integers(-3, 4, size=ms).astype(np.float64)
        R = [g[2] for g in pick]
        inp = {"ns": ns, "ms": ms, "target_splits": {str(k): v for k, v in ts.items()}, "schedule": list(sched),
               "rotations (perm, flip)": [[g[0], g[1]] for g in pick], "pad_target_edges": pe, "threshold": thr,
               "worker_processes": loky, "data": _data(target, template, None, None, R)}
        S.set_precision(True)
        try:
            with (contextlib.nullcontext() if loky else _sequential_parallel()):
                res = _subsets("CC", target, template, None, None, R, splits=ts, schedule=sched, pad=True, pe=pe,
                               cargs={"score_threshold": thr})
        except Exception as e:
            ctx.spec("scan_subsets runs on a well-formed request", inp, False, repr(e)[:300], key="e2e:exception")
            continue
        finally:
            S.set_precision(False)
        model = d.call("c02.enumJobs", target=ns, template=ms, targetSplits=[ts.get(a, 0) for a in range(nd)],
                       templateSplits=[0] * nd, outer=sched[0], inner=sched[1], nRot=nrot, padEdges=pe)
        data, placed = [], []
        for j in model["jobs"]:
            P = _padded_tile(target, [tuple(x) for x in j["targetSlice"]], j["pad"])
            W = S.windows(P, ms)
            per = []
            for (perm, flip, _) in pick:
                full = (W * S.rotate_grid(template, perm, flip)).sum(axis=tuple(range(nd, 2 * nd)))
                if j["valid"]:
                    full = full[tuple(slice(m // 2, m // 2 + e) for m, e in zip(ms, j["outShape"]))]
                per.append(np.rint(full).astype(np.int64))
            ok_shape = all(list(a.shape) == j["outShape"] for a in per)
            data.append([a.reshape(-1).tolist() for a in per] if ok_shape else None)
            placed.append((j["offset"], per))
        if any(x is None for x in data):
            ctx.agree("definition-level tile scores have the job's cropped shape", inp, False, True)
            continue
        m = d.call("c02.scanSubsets", target=ns, template=ms, targetSplits=[ts.get(a, 0) for a in range(nd)],
                   templateSplits=[0] * nd, outer=sched[0], inner=sched[1], rots=list(range(nrot)), padEdges=pe, thr=thr,
                   scores=data)
        sc = np.rint(np.asarray(res[0], np.float64)).astype(np.int64)
        impl = {"shape": list(sc.shape), "offset": [int(x) for x in np.asarray(res[1]).reshape(-1)], "scores": sc.reshape(-1).tolist()}
        if not isinstance(m, dict):
            ctx.agree("scan_subsets result == Pm.C02.scanSubsetsRun (score map, offset, shape)", inp, impl, m)
            continue
        ctx.agree("scan_subsets result == Pm.C02.scanSubsetsRun (score map, offset, shape)", inp, impl,
                  {"shape": m["shape"], "offset": m["offset"], "scores": m["scores"]})
        # the stored rotation attains the stored value (ties between rotations may be broken differently by rounding noise)
        rot = np.asarray(res[2]).astype(np.int64)
        inv = {int(v): np.frombuffer(k, dtype=np.float32 if len(k) == 4 * nd * nd else np.float64).reshape(nd, nd)
               for k, v in dict(res[3]).items()}
        att_ok, marker_ok = True, True
        if list(sc.shape) == m["shape"]:
            msc = np.array(m["scores"], dtype=np.int64).reshape(sc.shape)
            for rid in np.unique(rot):
                sel = rot == rid
                if rid < 0:
                    marker_ok = marker_ok and bool((msc[sel] == thr).all())
                    continue
                hits = [i for i in range(nrot) if rid in inv and np.allclose(inv[int(rid)], R[i], atol=1e-6)]
                if len(hits) != 1:
                    att_ok = False
                    continue
                att = np.zeros(sc.shape, bool)
                for off, per in placed:
                    sl = tuple(slice(o, o + e) for o, e in zip(off, per[hits[0]].shape))
                    att[sl] |= per[hits[0]] == msc[sl]
                att_ok = att_ok and bool(att[sel].all())
        ctx.spec("per voxel, the stored rotation attains the stored value; the marker stands only where the value is the threshold", inp,
                 bool(att_ok and marker_ok), {"attains": att_ok, "marker": marker_ok}, key="e2e:rotation")
        ctx.distinct(("e2e", tuple(ns), tuple(ms), tuple(sorted(ts.items())), tuple(sched), nrot, pe, thr))
        ctx.count("e2e:" + ("loky" if loky else "sequential"))
        ctx.count("e2e:" + ("padded" if pe else "unpadded"))
        if sched[1] > nrot:
            ctx.count("e2e:jobs>rotations")


def run(ctx):
    d = ctx.driver
    _tick(ctx, "build+audit")
    rng = ctx.rng("main")
    from tme.matching_data import MatchingData
    from tme.matching_utils import split_shape
    files = []

    # ---- the extracted loop programs as the compiled model sees them (sanity: all three pass the static check)
    loops = d.call("c02.loops")
    ctx.obligation("extracted loop bodies pass Pm.C02.defBeforeUse", all(v["ok"] for v in loops.values()),
                   {k: v["ok"] for k, v in loops.items()})
    ctx.sample({"extracted corr_scoring loop": loops["corr"]["ops"]})

    # ---- rotation chunking
    for it in range(ctx.budget(60, 400)):
        n = int(rng.integers(1, 40))
        nj = int(rng.integers(1, 20))
        if it % 10 == 0:
            n, nj = [(1, 1), (1, 16), (16, 16), (17, 16), (15, 16), (2, 3)][(it // 10) % 6]
        with _quiet():
            md = MatchingData(target=np.zeros((4, 4, 4), np.float32), template=np.zeros((2, 2, 2), np.float32),
                              rotations=np.arange(n * 9, dtype=np.float32).reshape(n, 3, 3))
        chunks = md._split_rotations_on_jobs(nj)
        impl = [[int(c[i, 0, 0]) // 9 for i in range(c.shape[0])] for c in chunks]
        ctx.agree("_split_rotations_on_jobs", {"n": n, "nJobs": nj}, impl, d.call("c02.splitRotations", n=n, nJobs=nj))
        flat = [x for c in impl for x in c]
        ctx.spec("rotation chunks: concatenation is the list", {"n": n, "nJobs": nj}, flat == list(range(n)) and len(impl) == nj,
                 impl, key="split_rotations")
        ctx.distinct(("chunks", n, nj))
        ctx.count("chunks:" + ("jobs>rotations" if nj > n else "jobs<=rotations"))

    _tick(ctx, "chunks")
    # ---- histories: the array emitted for a rotation does not depend on what was scored before it
    nh = ctx.budget(14, 70)
    for it in range(nh):
        score = S.SCORES[it % 7]
        nd = 2 if it % 3 else 3
        prec64 = it % 4 != 3          # default (single) precision on the classic ranges, double precision on the wide ones
        ns, ms, target, template, mask, tmask, R = _make(rng, nd, score, plain=not prec64)
        r, r2 = R[0], R[-1]
        order = 3 if (it // 7) % 2 == 0 else 1
        if it % 2 == 0:
            # the rotation scored before is an interpolated one (its rotated mask has another volume than a grid rotation's),
            # the mask is not the full box and, for the doubly-masked score, the target mask excludes a region
            if nd == 3:
                from scipy.spatial.transform import Rotation
                r2 = Rotation.from_euler("zyx", [float(x) for x in rng.uniform(20, 70, size=3)], degrees=True).as_matrix()
            else:
                a_ = float(rng.uniform(0.4, 1.2))
                r2 = np.array([[np.cos(a_), -np.sin(a_)], [np.sin(a_), np.cos(a_)]])
            if score not in ("CC", "LCC"):
                mask = np.ones(ms)
                mask[(0,) * nd] = 0
                mask[(-1,) + (0,) * (nd - 1)] = 0
                if template[mask > 0].std() == 0:      # constant under the mask: every normalised score is 0/0
                    template[tuple(np.argwhere(mask > 0)[0])] += max(1.0, float(np.abs(template).max()))
            if score == "MCC":
                tmask = np.ones(ns)
                tmask[tuple(slice(0, max(1, n // 3)) for n in ns)] = 0
        outs = {}
        S.set_precision(prec64)
        try:
            for name, hist in (("[r]", [r]), ("[r',r]", [r2, r]), ("[r,r',r]", [r, r2, r])):
                S.Recorder.log = []
                S.run_scan(score, target, template, mask=mask, target_mask=tmask, rotations=np.stack(hist), pad=bool(it % 2),
                           callback_class=S.Recorder, callback_args={}, order=order, dtype=np.float64 if prec64 else np.float32)
                outs[name] = [a for (_, a) in S.Recorder.log]
        finally:
            S.set_precision(False)
        ok = len(outs["[r]"]) == 1 and len(outs["[r',r]"]) == 2 and len(outs["[r,r',r]"]) == 3
        dmax = 0.0
        if ok:
            base = outs["[r]"][0]
            for arr in (outs["[r',r]"][1], outs["[r,r',r]"][0], outs["[r,r',r]"][2]):
                dmax = max(dmax, float(np.max(np.abs(arr - base))))
            ok = dmax <= 1e-6 * max(float(np.max(np.abs(base))), 1e-300)
        inp = {"score": score, "ns": ns, "ms": ms, "pad": bool(it % 2), "mask": mask is not None, "earlier_rotation_interpolated": bool(it % 2 == 0),
               "order": order, "double_precision": prec64, "r": np.asarray(r).tolist(), "r_earlier": np.asarray(r2).tolist(), "data": _data(target, template, mask, tmask, [r2, r])}
        ctx.spec("score map of a rotation independent of earlier rotations in the worker", inp, ok, {"max diff": dmax},
                 key=f"history:{score}", size=int(np.prod(ns)))
        ctx.distinct(("history", score, tuple(ns), tuple(ms), bool(it % 2), order))
        ctx.count("history:" + score)
        ctx.count(f"history:order={order}")

    _tick(ctx, "histories")
    # ---- an earlier search of the same shapes in this process must not show in a later one.  For a grid rotation rho,
    # B = (-target, rho(template), rho(mask); rotation r o rho^-1) has a known answer: every score is odd in the target and
    # B rotates its template onto the very array A scores, so B = -A whatever tiling is used.  A, B, A are run in a row.
    S.set_precision(True)
    try:
        for it in range(ctx.budget(5, 35)):
            score = S.SCORES[(3 * it + 1) % 7]
            nd = 2 if it % 3 else 3
            ns, ms, target, template, mask, tmask, R = _make(rng, nd, score)
            grid = [g for g in S.grid_rotations(nd) if S.rot_ok_for_shape(g[0], ms)]
            gr = grid[int(rng.integers(0, len(grid)))]
            gp = grid[int(rng.integers(1, len(grid)))] if len(grid) > 1 else grid[0]
            probe = rng.random(ms)
            want = S.rotate_grid(probe, gr[0], gr[1])
            gq = None
            for cand in (gr[2] @ gp[2].T, gp[2].T @ gr[2]):
                for g in grid:
                    if np.allclose(g[2], cand) and np.array_equal(S.rotate_grid(S.rotate_grid(probe, gp[0], gp[1]), g[0], g[1]), want):
                        gq = g
            if gq is None:
                ctx.count("sequence:skipped (no composed grid rotation)")
                continue
            if mask is not None and score in ("CORR", "CAM", "FLCSphericalMask"):
                # these scores keep the mask fixed while the template rotates: use a mask every grid rotation leaves alone
                mask = np.maximum.reduce([S.rotate_grid(mask, g[0], g[1]) for g in grid])
                if template[mask > 0].std() == 0:
                    mask = None
            templateB = S.rotate_grid(template, gp[0], gp[1])
            maskB = None if mask is None else S.rotate_grid(mask, gp[0], gp[1])
            RA, RB = gr[2][None], gq[2][None]
            pe = bool(it % 2 == 0)
            splits = _rand_splits(rng, ns, ms, pe=pe, max_tiles=6) if it % 4 < 2 else {}
            pad = bool(rng.random() < 0.5)
            kw = dict(splits=splits, pad=pad, pe=pe)
            inp = {"score": score, "ns": ns, "ms": ms, "splits": {str(k): v for k, v in splits.items()}, "pad_fourier": pad, "pad_edges": pe,
                   "rotation_A": gr[2].tolist(), "rho": gp[2].tolist(), "rotation_B": gq[2].tolist(), "mask": mask is not None,
                   "data": _data(target, template, mask, tmask, RA)}
            key = f"sequence:{score}"
            outs = [_try(ctx, inp, key, lambda t_=t_, g_=g_, m_=m_, r_=r_: np.asarray(_subsets(score, t_, g_, m_, tmask, r_, **kw)[0], np.float64))
                    for (t_, g_, m_, r_) in ((target.copy(), template, mask, RA), (-target, templateB, maskB, RB), (target.copy(), template, mask, RA))]
            if any(o is None for o in outs):
                continue
            a1, b, a2 = outs
            tol = 4 * _tol(score, a1, target, template)
            ok = a1.shape == b.shape == a2.shape == tuple(ns)
            # (where tiles disagree with each other - the recorded findings - the merge takes a maximum, which is not odd)
            sel = _asserted(score, ns, ms, split_shape(tuple(ns), splits), pe, mask, RA)[0]
            ok1, det1, ok2, det2 = False, None, False, None
            if ok:
                cache = {}

                def noise():
                    if "N" not in cache:
                        cache["N"] = _measured_noise(score, lambda s_: _try(ctx, inp, key, lambda: np.asarray(_subsets(
                            score, target * s_, template, mask, tmask, RA, **kw)[0], np.float64)), a1)
                    return cache["N"]
                ok1, det1 = _agrees(np.abs(b + a1), sel, tol, noise)
                ok2, det2 = _agrees(np.abs(a2 - a1), np.ones(ns, bool), tol, noise)
            ctx.spec("a search after another search of the same shapes: (-target, rho(template), r o rho^-1) gives -(target, template, r)", inp,
                     ok1, det1, key=key, size=int(np.prod(ns)))
            ctx.spec("the same search repeated after another one of the same shapes gives the same map", inp,
                     ok2, det2, key=key, size=int(np.prod(ns)))
            ctx.distinct(("sequence", score, tuple(ns), tuple(ms), tuple(sorted(splits.items())), pad, pe))
            ctx.count("sequence:" + score)
    finally:
        S.set_precision(False)

    _tick(ctx, "sequences")
    # ---- splitting / schedules / rotation order
    nsplit = ctx.budget(42, 320)
    nproc = ctx.budget(8, 48)
    # (outer, inner); inner = 0 stands for "more inner jobs than rotations" (4 jobs, at most 2 rotations).  The pairs of one
    # run are ordered by the size of the pool this process has to hold (outer, or inner when outer = 1): loky grows a pool
    # cheaply and re-spawns it when the size changes otherwise
    SCHED = [(2, 1), (1, 2), (2, 2), (3, 1), (1, 0), (4, 2), (2, 3), (1, 3), (5, 1), (1, 16), (3, 2), (16, 1)]
    nsched = 8 if not ctx.thorough else len(SCHED)
    sched_off = int(rng.integers(0, nsched))
    plan = sorted((SCHED[(j + sched_off) % nsched] for j in range((nproc + 1) // 2)),
                  key=lambda s_: ((s_[0] if s_[0] > 1 else (s_[1] or 4)), s_[1]))
    kind_cycle = [KINDS[1:-1][i] for i in rng.permutation(len(KINDS) - 2)]
    tkind_cycle = ["c", "fortran", "strided-view", "reversed-view", "readonly"]
    pair_off = int(rng.integers(0, 7))
    n_kind = 0
    pair = None          # multi-process iterations come in pairs that share every array shape, the schedule and the splits
    pending = []         # (references are computed in order A, B; the worker runs in order B, A: see below)
    for it in range(nsplit):
        multi = it < nproc
        if it == nproc:
            _tick(ctx, "splits (worker processes)")
        # (the sequence stream above covers scores 1, 4, 0, 3, 6; the first two pairs take 2 and 5, the others rotate)
        score = S.SCORES[it % 7] if not multi else S.SCORES[([2, 5] + [(pair_off + 3 * j) % 7 for j in range(nproc)])[it // 2]]
        nd = 2 if it % 4 else 3
        second = multi and it % 2 == 1 and pair is not None
        if second:
            nd = pair["nd"]
            ns, ms, target, template, mask, tmask, R = _make(rng, nd, score, like=(pair["ns"], pair["ms"]))
            pad, pe, splits, schedule = pair["pad"], pair["pe"], pair["splits"], pair["schedule"]
        else:
            ns, ms, target, template, mask, tmask, R = _make(rng, nd, score)
            pad = bool(rng.random() < 0.6)
            pe = bool(rng.random() < 0.65)
            splits = _rand_splits(rng, ns, ms, pe=pe, max_tiles=ctx.budget(9, 16))
            if not multi and it % 5 == 2 and max(ms) >= 4:
                # a tile border closer to the target's end than the margin: k tiles of extent L on an axis of extent
                # (k-1) L + r with 0 < r < m // 2, so that the last regular tile finds r real neighbours and mirrors the rest
                ax = int(np.argmax(ms))
                k_ = int(rng.integers(4, 6))
                r_ = int(rng.integers(1, ms[ax] // 2))
                L_ = k_ + r_ - 1
                ns2 = list(ns)
                ns2[ax] = (k_ - 1) * L_ + r_
                ns, ms, target, template, mask, tmask, R = _make(rng, nd, score, like=(ns2, ms))
                pe, splits = True, {ax: k_}
                ctx.count("split:tile border within the margin of the target's end")
            if not multi and it % 5 == 4:
                # without Fourier padding the arrays have the (sub-)volume's extent rounded up to a fast FFT length: an axis whose
                # extent is at least 2 below its fast length (37, 41, 43, 46, 47, 51, 53, 57 ..) while its tiles are not, or are by
                # another amount, shows any crop that forgets which part of that array is the convolution
                ax = int(rng.integers(0, nd))
                ns2 = list(ns)
                ns2[ax] = int(rng.choice([37, 41, 43, 46, 47, 51, 53]))
                if nd == 3:
                    ns2 = [min(n_, 14) if i != ax else n_ for i, n_ in enumerate(ns2)]
                ns, ms, target, template, mask, tmask, R = _make(rng, nd, score, like=(ns2, ms))
                pad, splits = False, {ax: int(rng.integers(2, 4))}
                ctx.count("split:axis extent well below its fast FFT length, no Fourier padding")
            schedule = (1, 1)
            if multi:
                schedule = plan[it // 2]
                if schedule[1] == 0:
                    schedule, R = (schedule[0], 4), R[:2]
            pair = dict(nd=nd, ns=ns, ms=ms, pad=pad, pe=pe, splits=splits, schedule=schedule) if multi else None
        # option flags, stratified so that the pairs that matter occur in every run: spline order 1 with an interpolated
        # rotation; inversion with the unnormalised scores and with file-backed targets; memory-mapped results with
        # every kind of threshold
        order = 1 if rng.random() < 0.25 else 3
        if order == 1 and not _is_generic(R):
            R = np.concatenate([R, _generic(rng, nd)[None]])
        perm = rng.permutation(len(R))
        # every second problem hands the target over in another container; the containers are cycled so that each occurs
        kind = "c"
        if it % 2 == 1 or rng.random() < 0.15:
            kind = kind_cycle[n_kind % len(kind_cycle)]
            n_kind += 1
        if score in ("CC", "LCC") and (it // 7) % 3 == 1:
            kind = "int16"
        if nd == 3 and (it // 4) % 2 == 1:
            kind = "density-memmap"     # (only 3-D MRC files are memory-mapped: the tile is then read from the file)
        tkind = tkind_cycle[(it // 3) % len(tkind_cycle)] if it % 3 == 0 else "c"
        if kind == "int16":
            if score in ("CC", "LCC") and float(np.max(np.abs(target))) < 3e4 and float(np.std(target)) >= 1.0:
                target = np.rint(target)      # integer-valued target in an integer container (unnormalised scores only)
            else:
                kind = "fortran"
        p_inv = 0.5 if (kind.startswith("density") or kind in ("memmap", "memmap-offset") or score in ("CC", "LCC")) else 0.1
        invert = bool(rng.random() < p_inv)
        use_memmap = bool(rng.random() < 0.25)
        thr_kind = str(rng.choice(["-inf", "default", "inside", "tie"])) if use_memmap else \
            str(rng.choice(["-inf", "-inf", "-inf", "default", "inside", "tie"]))
        S.set_precision(True)     # float64 in this process *and* (backend re-selected per worker) in every worker process
        try:
            base = dict(pad=pad, pe=pe, order=order, invert=invert)
            inp0 = {"score": score, "ns": ns, "ms": ms, "splits": {}, "schedule": [1, 1], "pad_fourier": pad, "pad_edges": pe, "n_rot": len(R),
                    "order": order, "invert_target": invert, "data": _data(target, template, mask, tmask, R)}
            ref0 = _try(ctx, inp0, f"raises:{score}", lambda: _subsets(score, target.copy(), template, mask, tmask, R, splits={}, schedule=(1, 1), **base))
            if ref0 is None:
                continue
            r0 = np.asarray(ref0[0], np.float64)
            cargs, thr = {"score_threshold": -1e30}, -1e30
            if thr_kind == "default":
                cargs, thr = {}, 0.0
            elif thr_kind == "inside":
                thr = float(np.quantile(r0, float(rng.uniform(0.2, 0.8))))
                cargs = {"score_threshold": thr}
            elif thr_kind == "tie":
                thr = float(r0.flat[int(rng.integers(0, r0.size))])
                cargs = {"score_threshold": thr}
            ref = ref0 if thr_kind == "-inf" else _try(ctx, inp0, f"raises:{score}", lambda: _subsets(
                score, target.copy(), template, mask, tmask, R, splits={}, schedule=(1, 1), cargs=cargs, **base))
            if ref is None:
                continue
            inp = {"score": score, "ns": ns, "ms": ms, "splits": {str(k): v for k, v in splits.items()}, "schedule": list(schedule),
                   "perm": perm.tolist(), "pad_fourier": pad, "pad_edges": pe, "n_rot": len(R), "mask": mask is not None,
                   "order": order, "invert_target": invert, "target_as": kind, "template_as": tkind, "assigned_after_construction": bool(it % 4 == 1), "score_threshold": thr_kind if thr_kind != "inside" else thr,
                   "use_memmap": use_memmap, "target_scale": float(np.std(target)), "target_mean": float(np.mean(target)),
                   "template_scale": float(np.std(template)), "template_mean": float(np.mean(template)),
                   "data": _data(target, template, mask, tmask, R)}
            job = dict(score=score, ns=ns, ms=ms, nd=nd, target=target, template=template, mask=mask, tmask=tmask, R=R, perm=perm,
                       splits=splits, schedule=schedule, base=base, cargs=cargs, thr=thr, thr_kind=thr_kind, use_memmap=use_memmap,
                       kind=kind, tkind=tkind, inp=inp, ref=ref, r0=r0, multi=multi, it=it)
            # Stale per-process state (anything cached by shape) is invisible when reference and worker runs see the same
            # order of searches.  The references of a pair were computed in this process in order A, B; the workers get B first.
            if multi and not second and it + 1 < nproc:
                pending.append(job)
                continue
            todo = [job] + pending
            pending = []
            for jb in todo:
                _confirmed(ctx, lambda jb=jb: _split_job(ctx, rng, jb, files, split_shape))
        finally:
            S.set_precision(False)
            _cleanup(files)

    _tick(ctx, "splits")
    # ---- inner jobs only (no tiles): every voxel must agree exactly with the single-job run, for every kind of mask;
    # through scan_subsets' schedule (1, k) and through scan(n_jobs=k) on the whole data
    masked = [x for x in ("FLC", "FLCSphericalMask", "CORR", "CAM", "MCC") if x in S.SCORES]
    for it in range(ctx.budget(7, 50)):
        score = masked[it % len(masked)]
        nd = 2 if it % 3 else 3
        ns, ms, target, template, mask, tmask, R = _make(rng, nd, score)
        kind = ["soft", "binary", "none"][(it // len(masked) + it) % 3] if score != "MCC" else "binary"
        if it == 0:
            kind = "soft"
        if kind == "none":
            mask = None
        else:
            mask = (rng.random(ms) < 0.8).astype(np.float64)
            if mask.sum() < 3 or template[mask > 0].std() == 0:
                mask = np.ones(ms)
            if kind == "soft":
                mask = mask * rng.choice([0.25, 0.5, 0.75, 1.0], size=ms)
        if score == "FLCSphericalMask" and mask is not None:
            mask = np.maximum.reduce([S.rotate_grid(mask, p_, f_) for p_, f_, _ in S.grid_rotations(nd) if S.rot_ok_for_shape(p_, ms)])
        # pool sizes ascend in blocks (a pool that grows is extended, a pool of another size is re-spawned); the last
        # iteration of each block has more jobs than rotations
        nin = ctx.budget(7, 50)
        k = 2 + (3 * it) // nin if not ctx.thorough else 2 + (7 * it) // nin
        if (3 * (it + 1)) // nin != (3 * it) // nin or it % 5 == 4:
            R = R[: max(1, k - 2)]
        pad = bool(it % 2)
        via = "scan" if it % 3 == 2 else "scan_subsets"
        # spline order 1 always comes with an interpolated rotation (first in the list: it survives the trimming above);
        # the direct scan(n_jobs=k) runs are of that kind, so the options scan_subsets forwards to scan are compared too
        order = 1 if (it % 3 == 1 or via == "scan") else 3
        if order == 1:
            R = np.concatenate([_generic(rng, nd)[None], R[: max(1, len(R) - 1)] if _is_generic(R[-1]) else R])
        cargs = {} if it % 5 == 3 else {"score_threshold": -1e30}        # default threshold (0) in every inner job and in the merge
        inp = {"score": score, "ns": ns, "ms": ms, "schedule": [1, k], "through": via, "n_rot": len(R), "mask_kind": kind, "pad_fourier": pad,
               "order": order, "score_threshold": "default" if not cargs else -1e30,
               "target": target.tolist(), "template": template.tolist(), "mask": None if mask is None else mask.tolist(),
               "rotations": np.asarray(R).tolist()}
        def inner_case():
            S.set_precision(True)
            try:
                kw = dict(pad=pad, order=order, cargs=cargs)
                ref = _try(ctx, inp, f"raises:{score}", lambda: _subsets(score, target.copy(), template, mask, tmask, R, splits={}, schedule=(1, 1), pe=False, **kw))
                if via == "scan":
                    got = _try(ctx, inp, f"raises:{score}", lambda: _scan_direct(score, target, template, mask, tmask, R, n_jobs=k, **kw))
                else:
                    got = _try(ctx, inp, f"raises:{score}", lambda: _subsets(score, target.copy(), template, mask, tmask, R, splits={}, schedule=(1, k), pe=False, **kw))
            finally:
                S.set_precision(False)
            if ref is None or got is None:
                return
            a, b = np.asarray(ref[0], np.float64), np.asarray(got[0], np.float64)
            ok, det = False, {"shapes": [list(a.shape), list(b.shape)]}
            if a.shape == b.shape:
                def noise():
                    S.set_precision(True)
                    try:
                        return _measured_noise(score, lambda s_: _try(ctx, inp, f"raises:{score}", lambda: np.asarray(_subsets(
                            score, target * s_, template, mask, tmask, R, splits={}, schedule=(1, 1), pe=False, **kw)[0], np.float64)), a)
                    finally:
                        S.set_precision(False)
                ok, det = _agrees(np.abs(a - b), np.ones(a.shape, bool), 1e-7, noise)
            ctx.spec("inner jobs: aggregated map equals the single-job run on every voxel", inp, ok, det, key=f"innerjobs:{score}")
        _confirmed(ctx, inner_case)
        ctx.distinct(("innerjobs", score, tuple(ns), tuple(ms), k, kind, pad, via, order))
        ctx.count("innerjobs:mask=" + kind)
        ctx.count("innerjobs:through=" + via)

    _tick(ctx, "innerjobs")
    # ---- MCC, target mask with an empty region, tiles with edge padding: outside the band where the tile's own overlap
    # threshold can decide differently (known finding MCC:overlap-threshold-per-tile) the maps agree
    S.set_precision(True)
    try:
        for it in range(ctx.budget(3, 24)):
            nd = 2 if it % 3 else 3
            ns, ms, target, template, mask, tmask, R = _make(rng, nd, "MCC")
            rots = [r for r in S.grid_rotations(nd) if S.rot_ok_for_shape(r[0], ms)]
            R = np.stack([rots[i][2] for i in rng.permutation(len(rots))[: int(rng.integers(1, 4))]])
            mask = (rng.random(ms) < 0.8).astype(np.float64)
            if mask.sum() < 3 or template[mask > 0].std() == 0:
                mask = np.ones(ms)
            ax = int(rng.integers(0, nd))
            tmask = np.ones(ns)
            hole = [slice(None)] * nd
            hole[ax] = slice(0, ns[ax] // 2)
            tmask[tuple(hole)] = (rng.random(tmask[tuple(hole)].shape) < float(rng.choice([0.0, 0.1, 0.4]))).astype(np.float64)
            splits = {ax: int(rng.integers(2, 4))}
            pad = bool(it % 2)
            inp = {"score": "MCC", "ns": ns, "ms": ms, "splits": {str(ax): splits[ax]}, "pad_fourier": pad, "pad_edges": True, "n_rot": len(R),
                   "data": _data(target, template, mask, tmask, R)}
            ref = _try(ctx, inp, "raises:MCC", lambda: _subsets("MCC", target.copy(), template, mask, tmask.copy(), R, splits={}, pad=pad, pe=True))
            got = _try(ctx, inp, "raises:MCC", lambda: _subsets("MCC", target.copy(), template, mask, tmask.copy(), R, splits=splits, pad=pad, pe=True))
            if ref is None or got is None:
                continue
            rs, gs = np.asarray(ref[0], np.float64), np.asarray(got[0], np.float64)
            if not (rs.shape == gs.shape == tuple(ns)):
                ctx.spec("aggregated map has the target's shape", inp, False, {"ref": rs.shape, "got": gs.shape}, key="split:shape")
                continue
            def one(r_, tiled):
                res = _try(ctx, inp, "raises:MCC", lambda: _subsets("MCC", target.copy(), template, mask, tmask.copy(), r_,
                                                                    splits=splits if tiled else {}, pad=pad, pe=True))
                return None if res is None else np.asarray(res[0], np.float64)
            band, worst = _mcc_band(one, R, ns)
            if band is None:
                continue
            # Conditioning: where only a sliver of the smoothed template mask meets the target mask the score is a quotient of
            # two numbers at noise level (the library's own guard only replaces denominators below 1e3 * eps * max), so the
            # clause is asserted on the translations whose window (one voxel of slack on every side) lies inside the populated
            # part of the target mask - the same conditioning as in the main stream - and that both runs keep or both zero
            from scipy.ndimage import minimum_filter
            full = minimum_filter(tmask, size=[m + 2 for m in ms], mode="reflect") >= 1.0
            diff = np.abs(rs - gs)
            chk = full & ~band
            dmax = float(diff[chk].max()) if chk.any() else 0.0
            ctx.count("mcc-target-mask-hole:asserted voxels", int(chk.sum()))
            ctx.spec("edge padding: aggregated map independent of splits / schedule / rotation order", inp, dmax <= 1e-7,
                     {"max diff (full-overlap translations kept or dropped by both)": dmax, "asserted voxels": int(chk.sum()),
                      "translations decided differently": int(band.sum()), "max diff on all translations decided alike (single rotations)": worst}, key="split:padded:MCC", size=int(np.prod(ns)))
            if band.any():
                ctx.spec("edge padding: the *whole* aggregated map is independent of the splits", inp, bool(diff[band].max() <= 1e-7),
                         {"max diff": float(diff[band].max()), "voxels": int(band.sum())}, key="MCC:overlap-threshold-per-tile",
                         size=int(np.prod(ns)))
            ctx.distinct(("mcc-hole", tuple(ns), tuple(ms), ax, splits[ax], pad))
            ctx.count("mcc-target-mask-hole")
    finally:
        S.set_precision(False)

    _tick(ctx, "mcc-hole")
    # ---- per-tile correspondence with the Lean model in the `valid` frame (CC, exact integers)
    for it in range(ctx.budget(6, 40)):
        nd = 2 if it % 2 == 0 else 3
        ms = [int(x) for x in rng.integers(2, 6 if nd == 2 else 4, size=nd)]
        ns = [int(rng.integers(2 * m + 1, 2 * m + (6 if nd == 2 else 3))) for m in ms]
        target = rng.integers(-4, 5, size=ns)
        template = rng.integers(-4, 5, size=ms)
        pad = bool(it % 3)
        with _quiet():
            md = MatchingData(target=target.astype(np.float32), template=template.astype(np.float32))
            sl = tuple(slice(int(a), int(b)) for a, b in ((lambda a: (a, int(rng.integers(a + 1, n + 1))))(int(rng.integers(0, n))) for n in ns))
            if it % 3 == 1:       # slice ends one voxel before the target's end / starts one voxel after its start: real neighbour + mirror
                sl = tuple(slice(1 if s_.start <= 1 else s_.start, n - 1) if s_.start < n - 2 else s_ for s_, n in zip(sl, ns))
            sub = md.subset_by_slice(target_slice=sl, target_pad=np.array(md.target_padding(pad_target=True)))
        tile = np.asarray(sub._target, np.float64)
        from tme.matching_exhaustive import scan, MATCHING_EXHAUSTIVE_REGISTER
        from tme.analyzer import MaxScoreOverRotations
        with _quiet():
            fp = sub.fourier_padding(pad_fourier=pad)
            res = scan(sub, *MATCHING_EXHAUSTIVE_REGISTER["CC"], n_jobs=1, callback_class=MaxScoreOverRotations,
                       callback_class_args={"score_threshold": -1e30}, pad_fourier=pad)
        sc = np.rint(np.asarray(res[0], np.float64)).astype(np.int64)
        r = d.call("c01.int", score="CC", pad=pad, mode="valid", ns=list(tile.shape), ms=ms, Ns=[int(x) for x in fp[1]],
                   perm=list(range(nd)), flip=[False] * nd, eps=1e-7, target=[int(x) for x in np.rint(tile).reshape(-1)],
                   template=[int(x) for x in template.reshape(-1)])
        inp = {"ns": ns, "ms": ms, "slice": [[s.start, s.stop] for s in sl], "pad": pad, "tile_shape": list(tile.shape)}
        ext = [s.stop - s.start for s in sl]
        ctx.agree("padded tile: cropped score map has the tile's extent", inp, list(sc.shape), ext)
        if list(sc.shape) == ext and len(r["impl"]) == int(np.prod(ext)):
            ctx.agree("padded tile (valid frame): score map == Lean implementation model", inp, sc.reshape(-1).tolist(), r["impl"])
            # spec: the tile reports, at its position j, the windowed sum at the global translation start + j
            W = S.windows(target.astype(np.float64), ms)
            full = (W * template).sum(axis=tuple(range(nd, 2 * nd)))
            glob = np.rint(full[sl]).astype(np.int64)
            inside = S.inside_mask(ns, ms)[sl]
            ctx.spec("tile offset places scores: tile value at j == definition at start + j (windows inside the volume)", inp,
                     bool(np.array_equal(sc[inside], glob[inside])), key="tile:offset")
        ctx.distinct(("tile", tuple(ns), tuple(ms), tuple((s.start, s.stop) for s in sl), pad))
        ctx.count("tile-valid-frame")
    _tick(ctx, "tile-model")
    # ---- the orchestration: jobs, offsets, rotation chunks, merge calls of the real scan_subsets / scan vs Pm.C02.enumJobs
    _enum_stream(ctx, d)
    _tick(ctx, "enumeration")
    _e2e_stream(ctx, d)
    _tick(ctx, "end-to-end (integer)")
    ctx.extra.pop("_c02_t", None)


def _confirmed(ctx, fn):
    """Evaluate `fn`; when it records property failures, evaluate it once more on the same inputs and keep only the
    failures whose keys recur (recorded findings are always kept).  A failure that an immediate re-evaluation of the very
    same inputs does not show has no replay - it was seen once in the thorough tier on a loaded machine (three unrelated
    clauses in one run, none of them reproducible from the recorded inputs afterwards) - and is counted, not reported."""
    from pv import findings as _fd
    known = _fd.known_for("C02")
    n0 = len(ctx.spec_failures)
    fn()
    new = ctx.spec_failures[n0:]
    if not [f for f in new if f["key"] not in known]:
        return
    del ctx.spec_failures[n0:]
    fn()
    keys2 = {f["key"] for f in ctx.spec_failures[n0:]}
    del ctx.spec_failures[n0:]
    keep = [f for f in new if f["key"] in keys2 or f["key"] in known]
    dropped = [f for f in new if not (f["key"] in keys2 or f["key"] in known)]
    ctx.spec_failures.extend(keep)
    if dropped:
        ctx.count("failure not reproduced by an immediate re-evaluation of the same inputs (not reported)", len(dropped))
        ctx.note("not reproduced on re-evaluation: " + "; ".join(sorted({f["key"] for f in dropped})))


def _split_job(ctx, rng, jb, files, split_shape):
    """the tiled / scheduled / permuted run of one prepared problem against its unsplit single-job reference"""
    score, ns, ms, nd = jb["score"], jb["ns"], jb["ms"], jb["nd"]
    target, template, mask, tmask, R, perm = jb["target"], jb["template"], jb["mask"], jb["tmask"], jb["R"], jb["perm"]
    splits, schedule, base, inp, ref, r0 = jb["splits"], jb["schedule"], jb["base"], jb["inp"], jb["ref"], jb["r0"]
    pe, kind, thr, thr_kind, multi, it = base["pe"], jb["kind"], jb["thr"], jb["thr_kind"], jb["multi"], jb["it"]
    tkind = jb["tkind"]

    def spec(clause, inp_, ok, detail=None, key=None, size=None):
        if not ok and (key or "").split(":")[0] not in ("LCC", "CAM", "MCC", "scan_subsets"):     # (not for the recorded findings)
            _dump(inp_, target=target, template=template, template_mask=mask, target_mask=tmask, rotations=R)
        return ctx.spec(clause, inp_, ok, detail, key=key, size=size)
    cargs = dict(jb["cargs"])
    if jb["use_memmap"]:
        cargs["use_memmap"] = True
    tk = "c"
    if tmask is not None and (kind.startswith("memmap") or kind.startswith("density") or kind == "fortran"):
        tk = kind
    got = _try(ctx, inp, f"raises:{score}", lambda: _subsets(
        score, _as_kind(target, kind, files), _as_kind(template, tkind, files), None if mask is None else _as_kind(mask, tkind, files),
        None if tmask is None else _as_kind(tmask, tk, files), R[perm], splits=splits, schedule=schedule, cargs=cargs,
        raw_template=True, late=bool(it % 4 == 1), **base))
    if got is None:
        return
    rs, gs = np.asarray(ref[0], np.float64), np.asarray(got[0], np.float64)
    ctx.distinct(("split", score, tuple(ns), tuple(ms), tuple(sorted(splits.items())), schedule, tuple(perm.tolist()), base["pad"], pe,
                  kind, thr_kind, jb["use_memmap"], base["invert"], base["order"]))
    ctx.count("split:" + ("padded" if pe else "nopad"))
    ctx.count("schedule:" + ("multi-process" if multi else "in-process"))
    ctx.count("score:" + score)
    ctx.count("target-as:" + kind)
    ctx.count("template-as:" + tkind)
    ctx.count("masks / rotations assigned after construction:" + str(bool(it % 4 == 1)))
    ctx.count("threshold:" + thr_kind)
    ctx.count("use_memmap:" + str(jb["use_memmap"]))
    ctx.count("invert_target:" + str(base["invert"]))
    ctx.count(f"order:{base['order']}")
    if it < 2:
        ctx.sample({k: v for k, v in inp.items() if k != "data"})
    if not (rs.shape == gs.shape == tuple(ns)):
        spec("aggregated map has the target's shape", inp, False, {"ref": rs.shape, "got": gs.shape}, key="split:shape")
        return
    tiles = split_shape(tuple(ns), splits)
    ntiles = len(tiles)
    ctx.count(f"tiles:{min(ntiles, 9)}")
    sel, special, _ = _asserted(score, ns, ms, tiles, pe, mask, R)
    inside_target = S.inside_mask(ns, ms)
    tol = _tol(score, r0, target, template)
    diff = np.abs(rs - gs)
    size = int(np.prod(ns))
    cache = {}

    def noise():
        if "N" not in cache:
            cache["N"] = _measured_noise(score, lambda s_: _try(ctx, inp, f"raises:{score}", lambda: np.asarray(_subsets(
                score, target * s_, template, mask, tmask, R, splits={}, schedule=(1, 1), cargs=jb["cargs"], **base)[0], np.float64)), rs)
            ctx.count("conditioning measured (a difference above the well-conditioned tolerance)")
        return cache["N"]
    if pe:
        ok, det = _agrees(diff, sel, tol, noise)
        spec("edge padding: aggregated map independent of splits / schedule / rotation order", inp, ok,
                 dict(det, tiles=ntiles), key=f"split:padded:{score}", size=size)
        if special and (~sel).any():
            spec("edge padding: the *whole* aggregated map is independent of the splits", inp,
                     bool(diff[~sel].max() <= tol), {"max diff": float(diff[~sel].max()), "tiles": ntiles},
                     key=special, size=size)
    else:
        ok1, det = _agrees(diff, sel, tol, noise)
        spec("no edge padding: translations whose window lies inside every tile that reports them agree", inp, ok1,
                 dict(det, tiles=ntiles), key=f"split:nopad:inside-tile:{score}", size=size)
        rest = inside_target & ~sel
        if rest.any():
            spec("no edge padding: every translation whose window lies inside the target agrees", inp,
                     bool(diff[rest].max() <= tol),
                     {"max diff": float(diff[rest].max()), "tiles": ntiles, "voxels": int(rest.sum())},
                     key=special or "scan_subsets:nopad-internal-border", size=size)
    try:
        rot_ids, table = _rotation_table(got, nd)
    except Exception as e:   # result tuple layout changed: correspondence, not a verdict
        ctx.agree("result tuple layout (scores, offset, rotations, rotation table)", inp, repr(e), "ok")
        return
    # 'no rotation' marker: exactly where no rotation exceeds the threshold (judged on the unthresholded reference, away
    # from the threshold by more than the noise)
    if thr_kind in ("inside", "tie") and sel.any() and rot_ids.shape == tuple(ns):
        below = sel & (r0 < thr - 10 * tol)
        above = sel & (r0 > thr + 10 * tol)
        okm = bool(np.all(rot_ids[below] < 0)) and bool(np.all(rot_ids[above] >= 0))
        if not okm and noise() is not None:          # (scores that rounding noise moves across the threshold)
            below &= r0 < thr - 1e3 * noise()
            above &= r0 > thr + 1e3 * noise()
            okm = bool(np.all(rot_ids[below] < 0)) and bool(np.all(rot_ids[above] >= 0))
        spec("score threshold: 'no rotation' marker exactly where no rotation exceeds the threshold, whatever the tiling", inp, okm,
                 {"threshold": thr, "marker where a rotation exceeds": int(np.sum(rot_ids[above] < 0)),
                  "rotation where none exceeds": int(np.sum(rot_ids[below] >= 0))}, key=f"split:threshold-marker:{score}", size=size)
    # a rotation that attains the value: identifiers map back through the table to a rotation whose own
    # (identically tiled) map attains the aggregated value
    ids = sorted(set(int(x) for x in np.unique(rot_ids)))
    ok3 = rot_ids.shape == tuple(ns) and all(i in table for i in ids if i >= 0) and len(table) <= len(R)
    pos = [i for i in ids if i >= 0]
    if ok3 and (ctx.thorough or multi or it % 2 == 0):
        if len(pos) > 3:
            pos = [pos[i] for i in sorted(rng.permutation(len(pos))[:3])]
        att = np.full(ns, np.nan)
        chk = np.zeros(ns, bool)
        for i in pos:
            single = _try(ctx, inp, f"raises:{score}", lambda: _subsets(score, target.copy(), template, mask, tmask, table[i][None],
                                                                        splits=splits, schedule=(1, 1), **base))
            if single is None:
                return
            m_ = np.asarray(single[0], np.float64)
            att[rot_ids == i] = m_[rot_ids == i]
            chk |= rot_ids == i
        tol3 = 10 * tol + 1e-6 * max(1.0, float(np.max(np.abs(gs))) if score in ("CC", "LCC") else 1.0)
        ok3 = _agrees(np.where(chk, np.abs(att - gs), 0.0), chk, tol3, noise)[0]
    spec("stored rotation identifier maps to a rotation that attains the aggregated value", inp, ok3,
             {"ids": ids[:8], "table": len(table)}, key=f"split:rotation-attains:{score}", size=size)


def search(ctx):
    """The extracted loops no longer pass / correspondence broke: hunt for a history or a split that shows it."""
    rng = ctx.rng("search")
    for it in range(28):
        score = S.SCORES[it % 7]
        nd = 2 if it % 2 else 3
        ns, ms, target, template, mask, tmask, R = _make(rng, nd, score)
        rots = [r[2] for r in S.grid_rotations(nd) if S.rot_ok_for_shape(r[0], ms)]
        r, r2 = rots[0], rots[-1]
        outs = {}
        for name, hist in (("a", [r]), ("b", [r2, r]), ("c", [r, r2, r])):
            S.Recorder.log = []
            S.run_scan(score, target, template, mask=mask, target_mask=tmask, rotations=np.stack(hist), pad=bool(it % 2),
                       callback_class=S.Recorder, callback_args={}, dtype=np.float64)
            outs[name] = [a for (_, a) in S.Recorder.log]
        base = outs["a"][0]
        dmax = max(float(np.max(np.abs(x - base))) for x in (outs["b"][1], outs["c"][0], outs["c"][2]))
        ctx.spec("score map of a rotation independent of earlier rotations in the worker",
                 {"score": score, "ns": ns, "ms": ms, "pad": bool(it % 2)}, dmax <= 1e-6 * max(float(np.max(np.abs(base))), 1e-300),
                 {"max diff": dmax}, key=f"history:{score}")
