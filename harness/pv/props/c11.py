"""C11 — orientation tables round-trip across text, STAR and Dynamo formats; index-based
subsetting; extraction windows.

Leg B: the real `tme.orientations.Orientations` of the repo under test against the Lean model
(Model/C11.lean) — file *bytes* written, parser outputs (tokens), subsetting, window arithmetic —
plus the clauses of the property evaluated directly on what the real code returns.
Numbers cross the model as the tokens numpy prints (`str(np.float32)`, `str(np.float64)`); the Euler
convention change is scipy's and is compared as rotation matrices (1e-4)."""
import ast
import contextlib
import io
import math
import os
import warnings
import zlib

import numpy as np

ID = "C11"
RULE = ("random orientation sets (0..N rows; fractional / integral / negative / large translations; angles over the full "
        "range incl. gimbal-lock values; scores/details incl. -0.0, nan, inf for text) written and read back through the three "
        "formats with the real code; foreign/malformed text, STAR and tbl files through the real parsers; index and boolean "
        "selections; extraction windows over all small target/box extents. distinct = distinct (family, configuration, "
        "content-hash) cases; 0-row tables are counted once per configuration, 1-axis/1-row window cases with the peak in "
        "the interior of a target larger than the box (nothing clipped) are not counted. Widened: the arrays handed to the "
        "constructor vary in memory layout / dtype / container; formats are also selected by file name (any case, names that only "
        "contain an extension) and by every documented name; one object is written repeatedly in one process (sessions); text "
        "files with permuted named columns; selections with every integer dtype, strided and read-only index arrays, tables of "
        "300 / 40000 / 70000 rows, copy(); windows with targets up to 70000 and boxes up to 40000, 4-D, extents handed over as "
        "tuple / list / ndarray, and the two-value return form")
ASSUMPTIONS = [
    "printing a float32/float64 with str() and parsing the token back (numpy astype / float()) is an identity on the value: "
    "trusted numpy, checked on the real code by the bit-identity clauses; the model works on tokens",
    "scipy Rotation.from_euler/as_euler are inverse up to 1e-4 on matrices (checked on the real code)",
    "subnormal float32 values are not generated (the extension is built with -ffast-math: FTZ/DAZ in this process)",
    "STAR `name`/`ctf_image` arguments are single whitespace-free tokens in the round-trip clauses (other values are only "
    "compared with the model)",
    "window clauses: 'non-empty ordering inside target/box' is evaluated for picks located inside the target "
    "(0 <= floor(t), ceil(t) <= extent); 'a box entirely inside the target is full-size' for picks with a margin of "
    "ceil(e/2) on both sides (holds for any centring / rounding convention)",
    "file names are ASCII (str.lower() is modelled on ASCII)",
    "a text file whose translation / angle columns carry the writer's names in another order describes the same set "
    "(header-driven column order); score and detail stay the last two columns",
]
TRUSTED = ["C11: numpy float formatting/parsing, float32->int truncation and scipy Euler conversions are exercised, not modelled"]

# Error model for 'the angles read back describe the same rotations' (max |R' - R| over matrix elements):
# an element of a rotation matrix is 1-Lipschitz in each Euler angle (radians).  The file carries the xyx angles as
# float64 tokens (error ~1e-15); the reader rounds them to float32 (|angle| <= 180 deg: half an ulp = 2^-17 deg = 1.33e-7
# rad each), converts in float64 and the constructor rounds the three zyx angles to float32 again (1.33e-7 rad each):
# <= 6 * 1.33e-7 = 8e-7.  Measured on 240 000 rotations (uniform, wide, both gimbal locks): 3.4e-7.  Bound used: 1e-5.
MAT_TOL = 1e-5

# ------------------------------------------------------------------------------------------ helpers


def _quiet(f, *a, **k):
    """run the real code: returns (value, None) or (None, 'ExcName')"""
    try:
        with warnings.catch_warnings():
            warnings.simplefilter("ignore")
            with contextlib.redirect_stdout(io.StringIO()):
                return f(*a, **k), None
    except Exception as e:  # the real code raising is an observation, not a harness failure
        return None, type(e).__name__


def _bits(a):
    return np.ascontiguousarray(np.asarray(a, dtype=np.float32)).view(np.uint32).reshape(np.shape(a)).tolist()


def _toks(a):
    """numpy array -> nested list of str tokens (string arrays give the tokens themselves)"""
    a = np.asarray(a)
    if a.ndim == 1:
        return [str(x) for x in a]
    return [[str(x) for x in row] for row in a]


def _mats(angles, seq="zyx"):
    from scipy.spatial.transform import Rotation
    angles = np.asarray(angles, dtype=np.float64).reshape(-1, 3)
    if angles.shape[0] == 0:
        return np.zeros((0, 3, 3))
    with warnings.catch_warnings():
        warnings.simplefilter("ignore")
        return Rotation.from_euler(seq, angles, degrees=True).as_matrix()


def _mat_err(a, b):
    if a.shape != b.shape:
        return float("inf")
    if a.size == 0:
        return 0.0
    return float(np.max(np.abs(a - b)))


def _file(ctx, name):
    from pv import env
    return os.path.join(env.scratch(), name)


def _read(path):
    with open(path, mode="r", encoding="utf-8") as fh:
        return fh.read()


def _crc(s):
    return zlib.crc32(s.encode("utf-8", "surrogatepass"))


# ------------------------------------------------------------------------------------------ generators

SPECIAL_ANGLES = [0.0, 90.0, -90.0, 180.0, -180.0, 360.0, 45.0, 1e-3, 89.99999, 90.00001, 270.0, -0.0, 30.0, 179.99998]


def gen_angles(rng, n, r):
    out = np.zeros((n, r), dtype=np.float32)
    mode = rng.choice(["uniform", "special", "mixed", "wide", "gimbal", "xlock"])
    for i in range(n):
        for j in range(r):
            m = mode if mode != "mixed" else rng.choice(["uniform", "special", "wide"])
            if m == "xlock":
                # rotations about x only: the middle angle of the file's xyx convention is 0 or 180 (its gimbal lock)
                v = float(rng.choice([0.0, 180.0, -180.0, -0.0, 360.0])) if j < r - 1 else rng.uniform(-180, 180)
                out[i, j] = v
                continue
            if m == "uniform":
                v = rng.uniform(-180, 180)
            elif m == "wide":
                v = rng.uniform(-720, 720)
            elif m == "gimbal":
                v = rng.choice([90.0, -90.0]) if j == 1 else rng.choice([rng.uniform(-180, 180), 0.0, 180.0])
            else:
                v = rng.choice(SPECIAL_ANGLES)
            out[i, j] = v
    return out, str(mode)


def gen_translations(rng, n, d):
    mode = rng.choice(["frac", "int", "neg", "large", "tiny", "mixed", "huge", "zeros"])
    scale = float(rng.choice([5, 64, 500, 4096]))
    a = rng.random((n, d)) * scale
    if mode == "int":
        a = np.floor(a)
    elif mode == "neg":
        a = a - scale / 2
    elif mode == "large":
        a = a * 1e4
    elif mode == "tiny":
        a = a * 1e-6
    elif mode == "mixed":
        a = np.where(rng.random((n, d)) < 0.5, np.floor(a), a)
    elif mode == "huge":                      # printed in exponent notation
        a = a * np.float32(rng.choice([1e12, 1e25, -1e18]))
    elif mode == "zeros":
        a = np.where(rng.random((n, d)) < 0.5, 0.0, -0.0) * np.where(rng.random((n, d)) < 0.7, 1.0, a)
    return a.astype(np.float32), str(mode)


def gen_scores(rng, n, exotic):
    a = rng.random(n).astype(np.float32)
    if n and rng.random() < 0.5:
        a = (a - 0.5) * np.float32(rng.choice([1, 100, 1e-6, 1e12]))
    if exotic and n:
        for _ in range(int(rng.integers(0, 3))):
            a[int(rng.integers(0, n))] = rng.choice(np.array([0.0, -0.0, np.nan, np.inf, -np.inf, 1e-20, 3.4e38, 1.0], dtype=np.float32))
    return a.astype(np.float32)


def gen_details(rng, n, exotic):
    k = rng.choice(["minus1", "ints", "rand"])
    if k == "minus1":
        a = np.full(n, -1.0)
    elif k == "ints":
        a = rng.integers(-3, 50, size=n).astype(float)
    else:
        a = rng.random(n)
    a = a.astype(np.float32)
    if exotic and n and rng.random() < 0.2:
        a[int(rng.integers(0, n))] = np.float32(rng.choice([np.nan, -0.0, np.inf]))
    return a


def gen_orient(rng, n, d, r, exotic=False):
    t, tm = gen_translations(rng, n, d)
    a, am = gen_angles(rng, n, r)
    if exotic and n and rng.random() < 0.1:   # text only: non-finite coordinates print and parse as well
        t[int(rng.integers(0, n)), int(rng.integers(0, d))] = np.float32(rng.choice([np.nan, np.inf, -np.inf]))
    return {"t": t, "a": a, "s": gen_scores(rng, n, exotic), "d": gen_details(rng, n, exotic), "tmode": tm, "amode": am,
            "layout": str(rng.choice(LAYOUTS))}


LAYOUTS = ["c", "c", "c", "f", "f64", "offset", "rev", "readonly", "list", "int"]


def _lay(a, layout):
    """the same float32 values in another memory layout / dtype / container (all legal constructor arguments)"""
    a = np.asarray(a)
    n = a.shape[0]
    if layout == "f":
        return np.asfortranarray(a)
    if layout == "f64":
        return a.astype(np.float64)
    if layout == "offset":                    # every other row of a wider array: non-contiguous, non-zero offset
        if a.ndim == 2:
            big = np.full((2 * n + 1, a.shape[1] + 2), 7.0, dtype=a.dtype)
            big[1::2, 1:-1] = a
            return big[1::2, 1:-1]
        big = np.full(2 * n + 1, 7.0, dtype=a.dtype)
        big[1::2] = a
        return big[1::2]
    if layout == "rev":                       # negative strides
        return np.ascontiguousarray(a[::-1])[::-1]
    if layout == "readonly":
        b = a.copy()
        b.setflags(write=False)
        return b
    if layout == "list":                      # (an empty nested list has no second axis: not a legal argument)
        return a.tolist() if n else a
    if layout == "int":                       # integral values as an integer array (the class docstring does that)
        if a.size and np.all(np.isfinite(a)) and np.all(a == np.floor(a)) and np.all(np.abs(a) < 2 ** 24) \
                and not np.any(np.signbit(a) & (a == 0)):
            return a.astype(np.int64)
        return a
    return a


def make(o):
    from tme import Orientations
    lay = o.get("layout", "c")
    return Orientations(translations=_lay(o["t"], lay), rotations=_lay(o["a"], lay), scores=_lay(o["s"], lay),
                        details=_lay(o["d"], lay))


def synthetic(n, d, r, k=0):
    """large tables described by a formula (keeps recorded inputs small); the score is the row number"""
    i = np.arange(n, dtype=np.int64)
    t = np.stack([((i * 7 + j * 3 + k) % 1000) + 0.25 * j for j in range(d)], axis=1).astype(np.float32).reshape(n, d)
    a = np.stack([((i * 37 + j * 11 + k) % 360) - 180.0 for j in range(r)], axis=1).astype(np.float32).reshape(n, r)
    return {"t": t, "a": a, "s": i.astype(np.float32), "d": ((i % 5) - 1).astype(np.float32), "tmode": "synthetic",
            "amode": "synthetic", "syn": [int(n), int(d), int(r), int(k)]}


def orient_json(o):
    if "syn" in o:
        return {"synthetic": list(o["syn"]), "layout": o.get("layout", "c")}
    return {"layout": o.get("layout", "c"),"translations": o["t"].astype(float).tolist(), "rotations": o["a"].astype(float).tolist(),
            "scores": [repr(float(x)) for x in o["s"]], "details": [repr(float(x)) for x in o["d"]],
            "shape_t": list(o["t"].shape), "shape_r": list(o["a"].shape)}


def orient_from_json(j):
    if "synthetic" in j:
        o = synthetic(*j["synthetic"])
        o["layout"] = j.get("layout", "c")
        return o
    return {**_orient_from_json(j), "layout": j.get("layout", "c")}


def _orient_from_json(j):
    t = np.array(j["translations"], dtype=np.float32).reshape(j["shape_t"])
    a = np.array(j["rotations"], dtype=np.float32).reshape(j["shape_r"])
    s = np.array([float(x) for x in j["scores"]], dtype=np.float32)
    d = np.array([float(x) for x in j["details"]], dtype=np.float32)
    return {"t": t, "a": a, "s": s, "d": d, "tmode": "replay", "amode": "replay"}


def _row(o, i):
    """the one-row orientation set made of row i (for shrinking a failing table)"""
    return {k: (v[i:i + 1] if isinstance(v, np.ndarray) else v) for k, v in o.items() if k != "syn"}


def n_rows(ctx, rng):
    hi = ctx.budget(30, 200)
    k = rng.random()
    if k < 0.08:
        return 0
    if k < 0.2:
        return 1
    if k < 0.7:
        return int(rng.integers(2, 8))
    return int(rng.integers(8, hi + 1))


# ------------------------------------------------------------------------------------------ text

def text_rows(o):
    return [{"trans": [str(x) for x in o["t"][i]], "rot": [str(x) for x in o["a"][i]],
             "score": str(o["s"][i]), "detail": str(o["d"][i])} for i in range(o["t"].shape[0])]


def canon_table(res):
    """_from_text output -> the model's Table json"""
    t, r, s, d = res
    t, r = np.asarray(t), np.asarray(r)
    return {"trans": _toks(t) if t.ndim == 2 else "bad-ndim", "transCols": int(t.shape[1]) if t.ndim == 2 else -1,
            "rot": _toks(r) if r.ndim == 2 else "bad-ndim", "rotCols": int(r.shape[1]) if r.ndim == 2 else -1,
            "score": _toks(s), "detail": _toks(d)}


def check_text(ctx, o, tag="gen", shrink=True):
    from tme import Orientations
    n, d = o["t"].shape
    r = o["a"].shape[1]
    inp = {"family": "text", "orient": orient_json(o)}
    path = _file(ctx, "c11.txt")
    obj = make(o)
    _, err = _quiet(obj.to_file, path, "text")
    if err:
        ctx.spec("text: writing succeeds", inp, False, err, key="text:write-raises", size=n)
        return False
    content = _read(path)
    model_txt = ctx.driver.call("c11.writeText", d=d, r=r, rows=text_rows(o))
    ctx.agree("text.write(bytes)", inp, content, model_txt)
    raw, err = _quiet(Orientations._from_text, path)
    impl = ("err:" + err) if err else canon_table(raw)
    ctx.agree("text.read(tokens)", inp, impl, ctx.driver.call("c11.readText", text=content))
    back, err = _quiet(Orientations.from_file, path, "text")
    ok = True
    zr = ":zero-rows" if n == 0 else ""
    if err:
        ok = ctx.spec("text: reading back succeeds", inp, False, err, key="text:read-raises" + zr, size=n)
    else:
        ok &= ctx.spec("text: same number of entries", inp, back.translations.shape[0] == n and back.scores.shape[0] == n,
                       list(back.translations.shape), key="text:count" + zr, size=n)
        ok &= ctx.spec("text: translations identical, order and axis order kept", inp,
                       back.translations.shape == o["t"].shape and _bits(back.translations) == _bits(o["t"]),
                       key="text:translations" + zr, size=n)
        if r >= 1:
            ok &= ctx.spec("text: angles bit-identical", inp,
                           back.rotations.shape == o["a"].shape and _bits(back.rotations) == _bits(o["a"]),
                           key="text:angles" + zr, size=n)
        ok &= ctx.spec("text: scores bit-identical", inp, _bits(back.scores) == _bits(o["s"]), key="text:scores" + zr, size=n)
        ok &= ctx.spec("text: details bit-identical", inp, _bits(back.details) == _bits(o["d"]), key="text:details" + zr, size=n)
    if not ok and shrink and n > 1:
        for i in range(min(n, 12)):
            sub = _row(o, i)
            if not check_text(ctx, sub, tag, shrink=False):
                break
    ctx.count(f"text:d={d},r={r}")
    ctx.count("text:rows=" + ("0" if n == 0 else "1" if n == 1 else "2-7" if n < 8 else "8+"))
    ctx.count("text:trans=" + o["tmode"])
    ctx.count("text:angles=" + o["amode"])
    if n > 0 or tag == "zero":
        ctx.distinct(("text", d, r, n if n == 0 else _crc(content)))
    return ok


HEADER_POOL = ["z", "y", "x", "w", "euler_z", "euler_y", "euler_x", "score", "detail", "euler_1", "xy", "abc", "",
               "eulerz", "euler_zz", "euler__x", "my_euler_a", "Z", "euler_", "a", "euler_euler_x", "yx"]


def gen_foreign_text(rng):
    kind = rng.choice(["perm", "pool", "transonly", "writerlike"])
    if kind == "perm":
        d, r = int(rng.integers(1, 4)), int(rng.integers(0, 4))
        names = list("zyxw"[:d])
        eul = ["euler_" + c for c in "zyxw"[:r]]
        rng.shuffle(names)
        rng.shuffle(eul)
        header = names + eul + ["score", "detail"]
        if rng.random() < 0.3:
            rng.shuffle(header)
    elif kind == "pool":
        header = [str(rng.choice(HEADER_POOL)) for _ in range(int(rng.integers(1, 8)))]
    elif kind == "transonly":
        header = [str(x) for x in rng.choice(list("zyxwab"), size=int(rng.integers(1, 4)))]
    else:
        d, r = int(rng.integers(0, 5)), int(rng.integers(0, 5))
        header = list("zyxwv"[:d]) + ["euler_" + c for c in "zyxwv"[:r]] + ["score", "detail"]
    lines = ["\t".join(header)]
    nrow = int(rng.choice([0, 0, 1, 2, 3, 6]))
    for _ in range(nrow):
        k = rng.random()
        w = len(header)
        if k < 0.3:
            w = max(0, w + int(rng.integers(-3, 3)))
        toks = [str(rng.choice(["1", "2.5", "-3.25", "1e-05", "7", "nan", "0.0", "42.125"])) for _ in range(w)]
        line = "\t".join(toks)
        if rng.random() < 0.15:
            line = str(rng.choice([" ", "\t", "  "])) + line + str(rng.choice([" ", "\t", " \t", "\r"]))
        lines.append(line)
        if rng.random() < 0.1:
            lines.append(str(rng.choice(["", " ", "5", "\t"])))
    text = "\n".join(lines)
    if rng.random() < 0.7:
        text += "\n"
    return text, str(kind)


def check_foreign_text(ctx, text, kind):
    from tme import Orientations
    path = _file(ctx, "c11f.txt")
    with open(path, "w", encoding="utf-8", newline="") as fh:
        fh.write(text)
    content = _read(path)
    raw, err = _quiet(Orientations._from_text, path)
    impl = ("err:" + err) if err else canon_table(raw)
    ctx.agree("text.read(foreign)", {"family": "text-foreign", "text": content}, impl, ctx.driver.call("c11.readText", text=content))
    ctx.count("textforeign:" + kind + (":raises" if err else ":ok"))
    ctx.distinct(("textforeign", _crc(content)))


# ------------------------------------------------------------------------------------------ STAR

def conv_tokens(o):
    """the angle tokens the writers emit: zyx -> xyx in degrees, printed as float64"""
    from scipy.spatial.transform import Rotation
    out = []
    with warnings.catch_warnings():
        warnings.simplefilter("ignore")
        for row in o["a"]:
            e = Rotation.from_euler("zyx", row, degrees=True).as_euler(seq="xyx", degrees=True)
            out.append([str(x) for x in e])
    return out


STAR_CFGS = [
    {}, {}, {"name": "tomo.mrc"}, {"name": "LIST"}, {"name": "t_1.mrc", "ctf_image": "wedge.mrc"},
    {"ctf_image": "ctf.mrc", "sampling_rate": 2.5, "subtomogram_size": 32}, {"name": "LIST", "sampling_rate": 13.33, "subtomogram_size": 7},
    {"name": "data_tomo_1.mrc", "sampling_rate": 2, "subtomogram_size": 48.0}, {"name": "_loop#1.mrc", "ctf_image": "#ctf"},
]


def star_kwargs(cfg, n):
    kw = dict(cfg)
    if kw.get("name") == "LIST":
        kw["name"] = [f"sub_{i}.mrc" for i in range(n)]
    return kw


def model_star_args(o, kw):
    ang = conv_tokens(o)
    rows = [{"trans": [str(x) for x in o["t"][i]], "ang": ang[i]} for i in range(o["t"].shape[0])]
    return {"rows": rows, "size": str(int(kw.get("subtomogram_size", 0))), "sampling": str(float(kw.get("sampling_rate", 1.0))),
            "name": kw.get("name"), "ctf": kw.get("ctf_image")}


def canon_cats(ret):
    return [[k, [[h, list(col)] for h, col in v.items()]] for k, v in ret.items()]


def _tok_floats(cols):
    """model token columns -> float32 array (n, 3), or None when a token is not a number"""
    try:
        return np.array([[float(x) for x in col] for col in cols], dtype=np.float64).astype(np.float32).T.reshape(-1, len(cols))
    except ValueError:
        return None


def star_read_agree(ctx, inp, path, content, delimiter=None):
    from tme import Orientations
    kw = {} if delimiter is None else {"delimiter": delimiter}
    margs = {"text": content}
    if delimiter is not None:
        margs["delimiter"] = delimiter
    ret, err = _quiet(Orientations._parse_star, path, **kw)
    ctx.agree("star.parse(tokens)", inp, ("err:" + err) if err else canon_cats(ret), ctx.driver.call("c11.parseStar", **margs))
    raw, err = _quiet(Orientations._from_relion_star, path, **kw)
    m = ctx.driver.call("c11.readStar", **margs)
    if isinstance(m, str):
        ctx.agree("star.read(outcome)", inp, "err:" + str(err), m)
        return
    mt = _tok_floats(m["trans"])
    if mt is None:                       # translations are converted before the angle columns are looked up
        ctx.agree("star.read(outcome)", inp, "err:" + str(err), "err:ValueError")
        return
    if isinstance(m["ang"], str):
        ctx.agree("star.read(outcome)", inp, "err:" + str(err), m["ang"])
        return
    ma = _tok_floats(m["ang"])
    if ma is None:
        ctx.agree("star.read(outcome)", inp, "err:" + str(err), "err:ValueError")
        return
    if err:
        ctx.agree("star.read(outcome)", inp, "err:" + err, "ok")
        return
    ctx.agree("star.read(translations)", inp, {"shape": list(np.shape(raw[0])), "bits": _bits(raw[0])},
              {"shape": list(mt.shape), "bits": _bits(mt)})
    e = _mat_err(_mats(raw[1], "zyx"), _mats(ma, "xyx"))
    ctx.agree("star.read(rotations)", inp, e <= MAT_TOL, True)


def check_star(ctx, o, cfg, tag="gen", shrink=True):
    from tme import Orientations
    n = o["t"].shape[0]
    kw = star_kwargs(cfg, n)
    inp = {"family": "star", "orient": orient_json(o), "cfg": cfg}
    path = _file(ctx, "c11.star")
    obj = make(o)
    _, err = _quiet(obj.to_file, path, "relion", **kw)
    if err:
        ctx.spec("star: writing succeeds", inp, False, err, key="star:write-raises", size=n)
        return False
    content = _read(path)
    ctx.agree("star.write(bytes)", inp, content, ctx.driver.call("c11.writeStar", **model_star_args(o, kw)))
    star_read_agree(ctx, inp, path, content)
    back, err = _quiet(Orientations.from_file, path)
    ok = True
    zr = ":zero-rows" if n == 0 else ""
    nm = ":no-name" if "name" not in cfg else ""
    if err:
        ok = ctx.spec("star: reading back succeeds", inp, False, err, key="star:read-raises" + zr, size=n)
    else:
        ok &= ctx.spec("star: same number of entries", inp, back.translations.shape[0] == n, list(back.translations.shape),
                       key="star:count" + zr, size=n)
        ok &= ctx.spec("star: translations identical, order and axis order kept", inp,
                       back.translations.shape == o["t"].shape and _bits(back.translations) == _bits(o["t"]),
                       key="star:translations" + zr, size=n)
        e = _mat_err(_mats(back.rotations), _mats(o["a"]))
        ok &= ctx.spec("star: angles describe the same rotations", inp, e <= MAT_TOL, {"max_matrix_error": e},
                       key="star:rotations" + nm + zr, size=n)
        # the writer separates fields by tabs: naming that delimiter when reading gives the same table
        back2, err2 = _quiet(Orientations.from_file, path, None, delimiter="\t")
        ok &= ctx.spec("star: reading back with delimiter='\\t' gives the same table", inp,
                       err2 is None and _bits(back2.translations) == _bits(back.translations)
                       and _bits(back2.rotations) == _bits(back.rotations), err2, key="star:tab-delimiter" + zr, size=n)
    if not ok and shrink and n > 1:
        for i in range(min(n, 12)):
            sub = _row(o, i)
            if not check_star(ctx, sub, cfg, tag, shrink=False):
                break
    ctx.count("star:cfg=" + ",".join(sorted(cfg)) if cfg else "star:cfg=default")
    ctx.count("star:rows=" + ("0" if n == 0 else "1" if n == 1 else "2-7" if n < 8 else "8+"))
    ctx.count("star:angles=" + o["amode"])
    ctx.distinct(("star", tuple(sorted(cfg)), n if n == 0 else _crc(content)))
    return ok


def gen_foreign_star(rng):
    cols = ["_rlnCoordinateX", "_rlnCoordinateY", "_rlnCoordinateZ", "_rlnAngleRot", "_rlnAngleTilt", "_rlnAnglePsi",
            "_rlnMicrographName", "_rlnOpticsGroup", "_rlnCtfImage"]
    kind = str(rng.choice(["relion-like", "shuffled", "odd"]))
    lines = []
    if rng.random() < 0.6:
        lines += ["# version 30001", "data_optics", "", "loop_", "_rlnOpticsGroup #1", "_rlnImageSize #2", "1 64"]
        if rng.random() < 0.3:
            lines[-1:] = []          # optics loop without rows
    hdr = list(cols)
    if kind != "relion-like":
        rng.shuffle(hdr)
        hdr = hdr[: int(rng.integers(3, len(hdr) + 1))]
    if kind == "odd" and rng.random() < 0.5:
        hdr = hdr + [hdr[0]]
    block = str(rng.choice(["data_particles", "data_particles", "data_particles", "data_", "data_other"]))
    lines += ["", "# version 30001", block, "", "loop_"]
    for i, h in enumerate(hdr):
        lines.append(h + (f" #{i + 1}" if rng.random() < 0.5 else "") + ("  # note" if rng.random() < 0.1 else ""))
    sep = str(rng.choice(["\t", " ", "   "]))
    for _ in range(int(rng.choice([0, 1, 2, 5]))):
        toks = []
        for h in hdr:
            if "Name" in h or "Ctf" in h:
                toks.append(str(rng.choice(["a.mrc", "b.mrc", "a b.mrc", ""])) if kind == "odd" else "a.mrc")
            else:
                toks.append(str(rng.choice(["1", "2.5", "-3.25", "10.0", "90.0", "180", "0.125"])))
        if kind == "odd" and rng.random() < 0.2:
            toks = toks[:-1]
        lines.append(sep.join(toks) + ("" if rng.random() < 0.8 else " "))
        if rng.random() < 0.1:
            lines.append(str(rng.choice(["", " ", "# comment", "loop_"])))
    if kind == "odd" and rng.random() < 0.3:
        lines += ["data_extra", "loop_", "_a", "_b", "1 2"]
    if kind == "odd" and rng.random() < 0.15:
        lines = ["_orphan"] + lines
    return "\n".join(lines) + ("\n" if rng.random() < 0.8 else ""), kind


def check_foreign_star(ctx, text, kind, delimiter=None):
    path = _file(ctx, "c11f.star")
    with open(path, "w", encoding="utf-8", newline="") as fh:
        fh.write(text)
    content = _read(path)
    star_read_agree(ctx, {"family": "star-foreign", "text": content, "delimiter": delimiter}, path, content, delimiter)
    ctx.count("starforeign:" + kind)
    ctx.distinct(("starforeign", _crc(content), delimiter))


# ------------------------------------------------------------------------------------------ Dynamo

def check_tbl(ctx, o, sampling=None, tag="gen", shrink=True, extra=None):
    """extra: further documented keyword arguments of the writer (name_prefix, subtomogram_size): they do not change the table"""
    from tme import Orientations
    n = o["t"].shape[0]
    kw = {} if sampling is None else {"sampling_rate": sampling}
    kw.update(extra or {})
    inp = {"family": "dynamo", "orient": orient_json(o), "sampling_rate": sampling, "extra": extra}
    path = _file(ctx, "c11.tbl")
    obj = make(o)
    _, err = _quiet(obj.to_file, path, "dynamo", **kw)
    if err:
        ctx.spec("dynamo: writing succeeds", inp, False, err, key="dynamo:write-raises", size=n)
        return False
    content = _read(path)
    ang = conv_tokens(o)
    rows = [{"index": str(i), "ang": ang[i], "trans": [str(x) for x in o["t"][i]], "score": str(o["s"][i])} for i in range(n)]
    ex = extra or {}
    ctx.agree("tbl.write(bytes)", inp, content, ctx.driver.call(
        "c11.writeTbl", sampling=str(1.0 if sampling is None else sampling), rows=rows, name_prefix=ex.get("name_prefix"),
        size=None if "subtomogram_size" not in ex else str(int(ex["subtomogram_size"]))))
    raw, err = _quiet(Orientations._from_tbl, path)
    m = ctx.driver.call("c11.readTbl", text=content)
    if isinstance(m, str) or err:
        ctx.agree("tbl.read(outcome)", inp, "err:" + str(err), m if isinstance(m, str) else "ok")
    else:
        ctx.agree("tbl.read(translation tokens)", inp, _toks(np.asarray(raw[0]).reshape(-1, 3)), [x["trans"] for x in m])
        ctx.agree("tbl.read(score tokens)", inp, _toks(raw[2]), [x["score"] for x in m])
        ma = np.array([[float(t) for t in x["ang"]] for x in m], dtype=np.float64).reshape(-1, 3)
        e = _mat_err(_mats(raw[1], "zyx"), _mats(ma, "xyx"))
        ctx.agree("tbl.read(rotations)", inp, e <= MAT_TOL, True)
    back, err = _quiet(Orientations.from_file, path)
    ok = True
    zr = ":zero-rows" if n == 0 else ""
    if err:
        ok = ctx.spec("dynamo: reading back succeeds", inp, False, err, key="dynamo:read-raises" + zr, size=n)
    else:
        ok &= ctx.spec("dynamo: same number of entries", inp, back.translations.shape[0] == n, list(back.translations.shape),
                       key="dynamo:count" + zr, size=n)
        ok &= ctx.spec("dynamo: translations identical, order and axis order kept", inp,
                       back.translations.shape == o["t"].shape and _bits(back.translations) == _bits(o["t"]),
                       key="dynamo:translations" + zr, size=n)
        e = _mat_err(_mats(back.rotations), _mats(o["a"]))
        ok &= ctx.spec("dynamo: angles describe the same rotations", inp, e <= MAT_TOL, {"max_matrix_error": e},
                       key="dynamo:rotations" + zr, size=n)
    if not ok and shrink and n > 1:
        for i in range(min(n, 12)):
            sub = _row(o, i)
            if not check_tbl(ctx, sub, sampling, tag, shrink=False, extra=extra):
                break
    ctx.count("dynamo:rows=" + ("0" if n == 0 else "1" if n == 1 else "2-7" if n < 8 else "8+"))
    ctx.count("dynamo:angles=" + o["amode"])
    ctx.distinct(("dynamo", sampling, n if n == 0 else _crc(content)))
    return ok


def gen_foreign_tbl(rng):
    lines = []
    for i in range(int(rng.choice([0, 1, 2, 4]))):
        w = 38 if rng.random() < 0.8 else int(rng.integers(20, 41))
        toks = [str(rng.choice(["0", "1", "2.5", "-3.25", "90.0", "45", "1e-05"])) for _ in range(w)]
        line = " ".join(toks)
        if rng.random() < 0.2:
            line = " " + line + "  "
        lines.append(line)
        if rng.random() < 0.15:
            lines.append(str(rng.choice(["", "   ", "\t"])))
    return "\n".join(lines) + ("\n" if rng.random() < 0.7 else "")


def check_foreign_tbl(ctx, text):
    from tme import Orientations
    path = _file(ctx, "c11f.tbl")
    with open(path, "w", encoding="utf-8", newline="") as fh:
        fh.write(text)
    content = _read(path)
    inp = {"family": "dynamo-foreign", "text": content}
    raw, err = _quiet(Orientations._from_tbl, path)
    m = ctx.driver.call("c11.readTbl", text=content)
    if isinstance(m, str) or err:
        ctx.agree("tbl.read(foreign outcome)", inp, "err:" + str(err), m if isinstance(m, str) else "ok")
    else:
        ctx.agree("tbl.read(foreign tokens)", inp, [_toks(np.asarray(raw[0]).reshape(-1, 3)), _toks(raw[2])],
                  [[x["trans"] for x in m], [x["score"] for x in m]])
    ctx.count("tblforeign:" + ("raises" if err else "ok"))
    ctx.distinct(("tblforeign", _crc(content)))


# ------------------------------------------------------------------------------------------ subsetting

def check_subset(ctx, o, sel, kind, container="array"):
    """sel: list of ints (kind='int') or list of bools (kind='bool'); container: how the selection is handed over
    (numpy array, python list, python tuple — all are legal selections)"""
    n = o["t"].shape[0]
    if container in ("list", "tuple") and len(sel) == 0:
        container = "array"      # an empty python list carries no dtype (numpy makes it float): not a typed selection
    dt = np.int64
    if container.startswith("array:"):
        dt = np.dtype(container.split(":")[1])
        if kind == "bool" or any(not (np.iinfo(dt).min <= int(x) <= np.iinfo(dt).max) for x in sel):
            container, dt = "array", np.int64
    inp = {"family": "subset", "orient": orient_json(o), "kind": kind, "container": container,
           "sel": [bool(x) if kind == "bool" else int(x) for x in sel]}
    obj = make(o)
    idx = np.array(sel, dtype=bool if kind == "bool" else dt)
    if container == "view":                   # strided view with an offset
        big = np.zeros(2 * len(sel) + 1, dtype=idx.dtype)
        big[1::2] = idx
        idx = big[1::2]
    elif container == "readonly":
        idx.setflags(write=False)
    if container == "list":
        idx = [bool(x) if kind == "bool" else int(x) for x in sel]
    elif container == "tuple":
        idx = tuple(bool(x) if kind == "bool" else int(x) for x in sel)
    ctx.count("subset:container=" + container)
    sub, err = _quiet(obj.__getitem__, idx)
    if kind == "int":
        m = ctx.driver.call("c11.takeIdx", n=n, idx=[int(x) for x in sel])
        valid = all(-n <= int(i) < n for i in sel)
        want = [int(i) % n for i in sel] if valid else None
    else:
        m = ctx.driver.call("c11.takeMask", n=n, mask=[bool(x) for x in sel])
        valid = len(sel) == n
        want = [i for i, b in enumerate(sel) if b] if valid else None   # (numpy also accepts an empty mask: model only)

    def rows_of(ob):
        return [_bits(ob.translations), _bits(ob.rotations), _bits(ob.scores), _bits(ob.details)]
    if err or isinstance(m, str):
        ctx.agree("getitem(outcome)", inp, "err:" + str(err), m if isinstance(m, str) else "ok")
    else:
        expect = [[_bits(o["t"][i]) for i in m], [_bits(o["a"][i]) for i in m], [_bits(o["s"][i]) for i in m], [_bits(o["d"][i]) for i in m]]
        ctx.agree("getitem(rows)", inp, rows_of(sub), expect)
    if valid:
        if err:
            ctx.spec("subset: valid selection succeeds", inp, False, err, key="subset:raises", size=n + len(sel))
        else:
            got = rows_of(sub)
            exp = [[_bits(o["t"][i]) for i in want], [_bits(o["a"][i]) for i in want], [_bits(o["s"][i]) for i in want], [_bits(o["d"][i]) for i in want]]
            ctx.spec("subset: exactly the selected rows, in the order selected", inp, got == exp, key="subset:rows", size=n + len(sel))
            # a copy, not a view
            if len(want):
                before = rows_of(obj)
                for arr in (sub.translations, sub.rotations, sub.scores, sub.details):
                    arr[...] = -12345.0
                ctx.spec("subset: result does not alias the source", inp, rows_of(obj) == before, key="subset:alias", size=n + len(sel))
        if len(want) >= 2 or (len(want) == 1 and n > 1):
            ctx.distinct(("subset", kind, n, tuple(want)))
    ctx.count(f"subset:{kind}:" + ("valid" if valid else "invalid"))


def check_copy(ctx, o):
    """copy() = the selection of every row"""
    n = o["t"].shape[0]
    inp = {"family": "copy", "orient": orient_json(o)}
    obj = make(o)
    rows_of = lambda ob: [_bits(ob.translations), _bits(ob.rotations), _bits(ob.scores), _bits(ob.details)]
    want = [_bits(o["t"]), _bits(o["a"]), _bits(o["s"]), _bits(o["d"])]
    c, err = _quiet(obj.copy)
    mc = ctx.driver.call("c11.copy", n=n)
    if err or isinstance(mc, str):
        ctx.agree("copy(outcome)", inp, "err:" + str(err) if err else "ok", mc if isinstance(mc, str) else "ok")
    else:
        ctx.agree("copy(rows)", inp, rows_of(c), [[_bits(o[k][i]) for i in rows] for k, rows in zip(("t", "a", "s", "d"), mc)])
    it, ierr = _quiet(lambda: [tuple(_bits(x) for x in tup) for tup in obj])
    mi = ctx.driver.call("c11.iter", n=n)
    if ierr or isinstance(mi, str):
        ctx.agree("iter(outcome)", inp, "err:" + str(ierr) if ierr else "ok", mi if isinstance(mi, str) else "ok")
    else:
        ctx.agree("iter(rows)", inp, [list(tup) for tup in it],
                  [[_bits(o["t"][q[0]]), _bits(o["a"][q[1]]), _bits(o["s"][q[2]]), _bits(o["d"][q[3]])] for q in mi])
        ctx.spec("subset: iteration yields one (translation, rotation, score, detail) tuple per orientation, in order", inp,
                 len(it) == n and all(list(it[i]) == [_bits(o["t"][i]), _bits(o["a"][i]), _bits(o["s"][i]), _bits(o["d"][i])] for i in range(n)),
                 key="subset:iter:rows", size=n)
    if err:
        return ctx.spec("subset: copy() succeeds", inp, False, err, key="subset:copy:raises", size=n)
    ok = ctx.spec("subset: copy() returns every row, in order", inp, rows_of(c) == want and
                  c.translations.shape == o["t"].shape and c.rotations.shape == o["a"].shape, key="subset:copy:rows", size=n)
    if n:
        for arr in (c.translations, c.rotations, c.scores, c.details):
            arr[...] = -12345.0
        ok &= ctx.spec("subset: copy() does not alias the source", inp, rows_of(obj) == want, key="subset:copy:alias", size=n)
        ctx.distinct(("copy", n, _crc(json_key(want[0][:4]))))
    ctx.count("copy")
    return ok


# ------------------------------------------------------------------------------------------ constructor validation

POST_INIT_CONTAINERS = ["array", "array64", "int", "list", "fortran"]


def check_post_init(ctx, shapes, container="array"):
    """shapes: the shapes of translations / rotations / scores / details handed to the constructor (any rank 0..3)"""
    from tme import Orientations
    shapes = [[int(x) for x in sh] for sh in shapes]
    inp = {"family": "post_init", "shapes": shapes, "container": container}

    def arr(sh, k):
        size = int(np.prod(sh)) if len(sh) else 1
        a = (np.arange(size, dtype=np.float64) * 0.5 + k).reshape(sh)
        if container == "array":
            return a.astype(np.float32)
        if container == "int":
            return a.astype(np.int64)
        if container == "list":
            return a.tolist()
        if container == "fortran":
            return np.asfortranarray(a.astype(np.float32))
        return a
    args = [arr(sh, k) for k, sh in enumerate(shapes)]
    shapes = [list(np.array(a).shape) for a in args]      # a nested list with an empty axis loses the axes behind it
    obj, err = _quiet(lambda: Orientations(translations=args[0], rotations=args[1], scores=args[2], details=args[3]))
    m = ctx.driver.call("c11.postInit", t=shapes[0], r=shapes[1], s=shapes[2], d=shapes[3])
    ctx.agree("post_init(outcome)", inp, "err:" + err if err else "ok", m)
    well = (len(shapes[0]) == 2 and len(shapes[1]) == 2 and len(shapes[2]) == 1 and len(shapes[3]) == 1
            and len({sh[0] for sh in shapes}) == 1)
    if well:
        got = None if err else [obj.translations, obj.rotations, obj.scores, obj.details]
        want = [np.asarray(a, dtype=np.float64).astype(np.float32) for a in args]
        ok = got is not None and all(g.dtype == np.float32 and list(g.shape) == sh and _bits(g) == _bits(w)
                                     for g, sh, w in zip(got, shapes, want))
        ctx.spec("constructor: a well-formed orientation set is accepted and stored as float32 arrays of the given shapes and values",
                 inp, ok, err, key="ctor:well-formed", size=sum(sum(sh) for sh in shapes))
        if shapes[0][0] > 0:
            ctx.distinct(("post_init", "ok", tuple(map(tuple, shapes)), container))
    elif err:
        ctx.distinct(("post_init", err, tuple(map(tuple, shapes))))
    ctx.count("post_init:" + (err or "ok"))
    ctx.count("post_init:container=" + container)


def gen_post_init(rng):
    n = int(rng.choice([0, 1, 2, 3, 5]))
    k = rng.random()
    shapes = [[n, int(rng.choice([1, 2, 3]))], [n, int(rng.choice([1, 2, 3]))], [n], [n]]
    if k < 0.35:
        return shapes                                  # well-formed
    for _ in range(int(rng.choice([1, 1, 2, 4]))):
        j = int(rng.integers(0, 4))
        what = rng.random()
        if what < 0.35:                                # another row count
            shapes[j] = [int(rng.choice([0, 1, 2, 3, 5]))] + shapes[j][1:]
        elif what < 0.55:                              # 0-d
            shapes[j] = []
        elif what < 0.8:                               # one axis more
            shapes[j] = shapes[j] + [int(rng.choice([0, 1, 2]))]
        else:                                          # one axis less
            shapes[j] = shapes[j][:-1]
    return shapes


# ------------------------------------------------------------------------------------------ windows

def slices_to_ints(sl):
    return [[[int(s.start), int(s.stop)] for s in tup] for tup in sl]


WINDOW_CALLS = {"tuple": tuple, "list": list, "int64": lambda x: np.array(x, dtype=np.int64),
                "int32": lambda x: np.array(x, dtype=np.int32), "npscalars": lambda x: tuple(np.int64(v) for v in x)}


def check_windows(ctx, o, target, box, tag="gen", call="tuple"):
    """call: how the extents are handed over (tuple / list / integer ndarray / numpy scalars)"""
    n, d = o["t"].shape
    inp = {"family": "windows", "orient": orient_json(o), "target": list(target), "box": list(box), "call": call}
    conv = WINDOW_CALLS[call]
    ctx.count("window:call=" + call)
    obj = make(o)
    peaks = [[int(math.trunc(float(v))) for v in row] for row in o["t"]]
    size = n * d + sum(target) + sum(box)
    # peaks = self.translations.astype(int): the model's truncation of the exact binary value m * 2^e of every float32
    if n and np.all(np.isfinite(o["t"])) and float(np.max(np.abs(o["t"]))) < 2.0 ** 62:
        def m_e(v):
            mant, ex = math.frexp(float(np.float32(v)))
            return [int(mant * 2 ** 24), ex - 24]
        mp = ctx.driver.call("c11.peaks", t=[[m_e(v) for v in row] for row in o["t"]])
        ctx.agree("extraction(peaks)", inp, obj.translations.astype(int).tolist(), mp)
        ctx.agree("extraction(peaks used)", inp, peaks, mp)
    res = {}
    for drop in (False, True):
        out, err = _quiet(obj.get_extraction_slices, conv(target), conv(box), drop, True)
        m = ctx.driver.call("c11.extraction", target=list(target), box=list(box), peaks=peaks, drop=drop)
        if err:
            ctx.agree("extraction(outcome)", {**inp, "drop": drop}, "err:" + err, "ok")
            ctx.spec("windows: computing windows succeeds", {**inp, "drop": drop}, False, err, key="window:raises", size=size)
            return False
        sub, cand, obs = out
        impl = [[c + ob_ for c, ob_ in zip(cr, orow)] for cr, orow in zip(slices_to_ints(cand), slices_to_ints(obs))]
        model = [[[w[0], w[1], w[2], w[3]] for w in e["w"]] for e in m]
        ctx.agree("extraction(slices)", {**inp, "drop": drop}, impl, model)
        ctx.agree("extraction(kept rows)", {**inp, "drop": drop}, _bits(sub.translations), [_bits(o["t"][e["i"]]) for e in m])
        # subset = self[keep_peaks]: the model's boolean selection with its keep mask, all four arrays
        kr = ctx.driver.call("c11.keepRows", target=list(target), box=list(box), peaks=peaks, drop=drop)
        if isinstance(kr, str):
            ctx.agree("extraction(subset outcome)", {**inp, "drop": drop}, "ok", kr)
        else:
            ctx.agree("extraction(subset rows)", {**inp, "drop": drop},
                      [_bits(sub.translations), _bits(sub.rotations), _bits(sub.scores), _bits(sub.details)],
                      [[_bits(o[k][i]) for i in rows] for k, rows in zip(("t", "a", "s", "d"), kr["rows"])])
            ctx.agree("extraction(keep mask)", {**inp, "drop": drop}, [e["i"] for e in m], [i for i, b in enumerate(kr["mask"]) if b])
        res[drop] = (sub, slices_to_ints(cand), slices_to_ints(obs))
    sub0, cand0, obs0 = res[False]
    ok = True
    # the form without the orientations (return_orientations left out; drop_out_of_box left out = False)
    for args, drop in (((), False), ((False,), False), ((True,), True)):
        out2, err = _quiet(obj.get_extraction_slices, conv(target), conv(box), *args)
        good = err is None and isinstance(out2, tuple) and len(out2) == 2
        good = good and slices_to_ints(out2[0]) == res[drop][1] and slices_to_ints(out2[1]) == res[drop][2]
        ok &= ctx.spec("windows: the two-value form returns the same destination and source windows", {**inp, "args": list(args)},
                       good, err, key="window:two-value-form", size=size)
    ok &= ctx.spec("windows: one window per pick", inp, len(cand0) == n and len(obs0) == n and sub0.translations.shape[0] == n,
                   key="window:count", size=size)
    if not ok:
        return False
    full = []
    for i in range(n):
        lo = [math.floor(float(v)) for v in o["t"][i]]     # the clauses below hold for truncation, flooring or rounding
        hi = [math.ceil(float(v)) for v in o["t"][i]]
        inside = all(0 <= lo[ax] and hi[ax] <= target[ax] for ax in range(d))
        pin = {**inp, "pick": i, "peak": peaks[i]}
        c, ob_ = cand0[i], obs0[i]
        ok &= ctx.spec("windows: source and destination extents equal", pin,
                       all(c[ax][1] - c[ax][0] == ob_[ax][1] - ob_[ax][0] for ax in range(d)), {"cand": c, "obs": ob_},
                       key="window:extents-equal", size=size)
        ok &= ctx.spec("windows: source window inside the target", pin,
                       all(0 <= ob_[ax][0] and ob_[ax][1] <= target[ax] and (not inside or ob_[ax][0] <= ob_[ax][1]) for ax in range(d)),
                       {"obs": ob_}, key="window:inside-target", size=size)
        ok &= ctx.spec("windows: destination window inside the box", pin,
                       all(0 <= c[ax][0] and c[ax][1] <= box[ax] and (not inside or c[ax][0] <= c[ax][1]) for ax in range(d)),
                       {"cand": c}, key="window:inside-box", size=size)
        full.append(all(c[ax][1] - c[ax][0] == box[ax] for ax in range(d)))
        # a box that lies entirely inside the target is not partial (margin ceil(e/2) on both sides: any centring convention)
        fits = all(lo[ax] - (box[ax] + 1) // 2 >= 0 and hi[ax] + (box[ax] + 1) // 2 <= target[ax] for ax in range(d))
        if fits:
            ok &= ctx.spec("windows: a box entirely inside the target is full-size (not a partial box)", pin, full[-1],
                           {"cand": c, "obs": ob_}, key="window:interior-full", size=size)
            ctx.count("window:interior")
        clipped = not full[-1]
        ctx.count("window:" + ("full" if full[-1] else "clipped") + ("" if inside else ":outside-target"))
        if n > 1 or d > 1 or clipped:
            ctx.distinct(("window", tuple(target), tuple(box), tuple(peaks[i])))
    sub1, cand1, obs1 = res[True]
    want = [i for i in range(n) if full[i]]
    ok &= ctx.spec("windows: kept picks are exactly the full-size ones", inp,
                   cand1 == [cand0[i] for i in want] and obs1 == [obs0[i] for i in want]
                   and _bits(sub1.translations) == [_bits(o["t"][i]) for i in want]
                   and _bits(sub1.rotations) == [_bits(o["a"][i]) for i in want]
                   and _bits(sub1.scores) == [_bits(o["s"][i]) for i in want],
                   {"kept": len(cand1), "full": want}, key="window:kept-iff-full", size=size)
    for ax in range(d):
        ctx.count("window:box-" + ("odd" if box[ax] % 2 else "even") + ("-gt-target" if box[ax] > target[ax] else ""))
    return ok


def gen_window_case(rng, ctx, wide=False, scale="small"):
    """scale: small (extents < 14 / 40), big (tomogram-sized: targets 200..5000, boxes up to 700), huge (targets
    30000..70000, boxes 100..40000: beyond 8- and 16-bit integers)"""
    d = int(rng.choice([2, 3, 3, 1, 4]))
    hi = 14 if not wide else 40
    lo_t, hi_t, hi_b = 1, hi, hi + 4
    if scale == "big":
        lo_t, hi_t, hi_b = 200, 5000, 700
    elif scale == "huge":
        lo_t, hi_t, hi_b = 30000, 70001, 40000
    target = [int(x) for x in rng.integers(lo_t, hi_t, size=d)]
    k = rng.random()
    if k < 0.25 and scale != "huge":
        box = [int(rng.integers(t, t + 6)) for t in target]          # box at least as large as the target
    elif k < 0.3:
        box = [int(rng.integers(0, 3)) for _ in target]
    else:
        box = [int(x) for x in rng.integers(1 if scale != "huge" else 100, hi_b, size=d)]
    if rng.random() < 0.3:
        box = [box[0]] * d
    n = int(rng.choice([0, 1, 2, 4, 8]))
    mode = rng.choice(["inside", "inside", "edges", "anywhere"])
    t = np.zeros((n, d), dtype=np.float32)
    for i in range(n):
        for ax in range(d):
            T = target[ax]
            if mode == "inside":
                v = rng.uniform(0, T - 1e-3) if rng.random() < 0.7 else float(rng.integers(0, T))
            elif mode == "edges":
                v = float(rng.choice([0, T - 1, T, max(0, T // 2), 0.5, T - 0.5]))
            else:
                v = rng.uniform(-T - 3, 2 * T + 3)
            t[i, ax] = v
    a, am = gen_angles(rng, n, d)
    o = {"t": t, "a": a, "s": gen_scores(rng, n, False), "d": gen_details(rng, n, False), "tmode": str(mode), "amode": am,
         "layout": str(rng.choice(LAYOUTS))}
    return o, target, box



# ------------------------------------------------------------------------------------------ text: permuted named columns

def check_text_permuted(ctx, o, perm):
    """a text file with the writer's column names in another order (perm over the d+r translation / angle columns;
    score and detail stay last): header-driven column order must give the same orientation set"""
    from tme import Orientations
    n, d = o["t"].shape
    r = o["a"].shape[1]
    inp = {"family": "text-permuted", "orient": orient_json(o), "perm": [int(x) for x in perm]}
    names = ctx.driver.call("c11.textHeader", d=d, r=r)
    cols = names[:d + r]
    lines = ["\t".join([cols[k] for k in perm] + names[d + r:])]
    for i in range(n):
        toks = [str(x) for x in o["t"][i]] + [str(x) for x in o["a"][i]]
        lines.append("\t".join([toks[k] for k in perm] + [str(o["s"][i]), str(o["d"][i])]))
    path = _file(ctx, "c11p.txt")
    with open(path, "w", encoding="utf-8", newline="") as fh:
        fh.write("\n".join(lines) + "\n")
    content = _read(path)
    raw, err = _quiet(Orientations._from_text, path)
    ctx.agree("text.read(permuted)", inp, ("err:" + err) if err else canon_table(raw), ctx.driver.call("c11.readText", text=content))
    back, err = _quiet(Orientations.from_file, path, "text")
    if err:
        ok = ctx.spec("text: a file with permuted named columns is read", inp, False, err, key="text:permuted-columns:raises", size=n)
    else:
        ok = ctx.spec("text: columns are identified by their header names (permuted columns give the same set)", inp,
                      back.translations.shape == o["t"].shape and _bits(back.translations) == _bits(o["t"])
                      and back.rotations.shape == o["a"].shape and _bits(back.rotations) == _bits(o["a"])
                      and _bits(back.scores) == _bits(o["s"]) and _bits(back.details) == _bits(o["d"]),
                      key="text:permuted-columns", size=n)
    if not ok and n > 1:
        check_text_permuted(ctx, _row(o, 0), perm)
    ctx.count("textperm:" + ("identity" if list(perm) == sorted(perm) else "permuted"))
    if list(perm) != sorted(perm):
        ctx.distinct(("textperm", d, r, tuple(int(x) for x in perm), _crc(content)))
    return ok


# ------------------------------------------------------------------------------------------ format selection

FILE_STEMS = ["picks", "a.star", "a.tbl", "run.star.v2", "Star", "tbl", "x.", "data_star", "tomo.txt", "UPPER", "a.tbl.star",
              "a.star.tbl", "s", ".star", "my picks"]
FILE_EXTS = ["", ".star", ".tbl", ".STAR", ".TBL", ".Star", ".tBl", ".txt", ".tsv", ".star.txt", ".tbl.bak", ".start", ".stbl",
             "star", "tbl", ".sta", ".tb", ".star ", ".STAR.TBL", ".tbl.STAR", "_star", ".text", ".dynamo", ".relion"]
FORMAT_NAMES = ["text", "relion", "dynamo"]                # the names both docstrings document
OTHER_NAMES = ["tbl", "star", "Text", "RELION", "", "dynamo ", "txt"]


def _sniff(content, n):
    """which writer produced this file"""
    if content.startswith("# version 30001\ndata_optics"):
        return "relion"
    if content.startswith("z\ty\tx\teuler_z"):
        return "text"
    if (n == 0 and content == "") or (n and len(content.split("\n")[0].split(" ")) == 38):
        return "dynamo"
    return "unknown"


def _same_set(o, back, fmt):
    """the clauses of the property for one read-back (3 translation / 3 angle columns)"""
    if back.translations.shape != o["t"].shape or _bits(back.translations) != _bits(o["t"]):
        return "translations"
    if fmt == "text":
        if back.rotations.shape != o["a"].shape or _bits(back.rotations) != _bits(o["a"]):
            return "angles"
        if _bits(back.scores) != _bits(o["s"]) or _bits(back.details) != _bits(o["d"]):
            return "scores/details"
    else:
        e = _mat_err(_mats(back.rotations), _mats(o["a"]))
        if not e <= MAT_TOL:
            return f"rotations (matrix error {e})"
    return None


def check_dispatch(ctx, o, fname, wfmt, rfmt):
    """to_file(fname, wfmt) then from_file(fname, rfmt); None = inferred from the file name"""
    from tme import Orientations
    n = o["t"].shape[0]
    inp = {"family": "dispatch", "orient": orient_json(o), "fname": fname, "write_format": wfmt, "read_format": rfmt}
    path = _file(ctx, fname)
    if os.path.exists(path):
        os.remove(path)
    obj = make(o)
    mw = ctx.driver.call("c11.dispatch", fname=fname, fmt=wfmt, side="write")
    mr = ctx.driver.call("c11.dispatch", fname=fname, fmt=rfmt, side="read")
    kw = {"name": "tomo.mrc"} if mw == "relion" else {}
    _, werr = _quiet(obj.to_file, path, wfmt, **kw)
    wrote = None if werr else _sniff(_read(path), n)
    ctx.agree("dispatch.write(format)", inp, ("err:" + werr) if werr else wrote, mw)
    ctx.count("dispatch:write=" + str(wfmt) + "->" + str(wrote if not werr else werr))
    documented = (wfmt is None or wfmt in FORMAT_NAMES) and (rfmt is None or rfmt in FORMAT_NAMES)
    same_request = wfmt == rfmt
    if werr:
        if wfmt is None or wfmt in FORMAT_NAMES:
            ctx.spec("formats: writing with a documented format (or an inferred one) succeeds", inp, False, werr,
                     key=f"dispatch:write-raises:{wfmt}", size=n)
        return False
    back, rerr = _quiet(Orientations.from_file, path, rfmt)
    if isinstance(mr, str) and mr.startswith("err:"):
        ctx.agree("dispatch.read(format)", inp, "err:" + str(rerr), mr)
    else:
        # from_file(path, request) is the reader the model names, applied to that file (whatever the file holds)
        reader = {"text": Orientations._from_text, "relion": Orientations._from_relion_star, "dynamo": Orientations._from_tbl}[mr]
        ref, e2 = _quiet(lambda: Orientations(*reader(path)[:4]))
        allbits = lambda ob: [_bits(ob.translations), _bits(ob.rotations), _bits(ob.scores), _bits(ob.details)]
        ctx.agree("dispatch.read(format)", inp, ("err:" + rerr) if rerr else allbits(back), ("err:" + e2) if e2 else allbits(ref))
    ctx.count("dispatch:read=" + str(rfmt) + ("->" + rerr if rerr else "->ok"))
    ok = True
    if documented and same_request:
        # the same request on both sides (same file name, same documented format name, or both left out) round-trips
        which = "inferred" if wfmt is None else "name=" + wfmt
        if rerr:
            ok = ctx.spec("formats: a table written with a format request is read back with the same request", inp, False, rerr,
                          key=f"dispatch:read-raises:{which}", size=n)
        else:
            bad = _same_set(o, back, wrote)
            ok = ctx.spec("formats: a table written with a format request is read back with the same request", inp, bad is None, bad,
                          key=f"dispatch:roundtrip:{which}", size=n)
        ctx.distinct(("dispatch", fname, wfmt, rfmt, n))
    return ok


# ------------------------------------------------------------------------------------------ sessions (one object, many writes)

def check_session(ctx, o, o2, steps):
    """steps: list of [who (0/1), format, cfg] executed on two long-lived objects that share the file paths"""
    from tme import Orientations
    inp = {"family": "session", "orient": orient_json(o), "orient2": orient_json(o2), "steps": steps}
    objs = [make(o), make(o2)]
    src = [o, o2]
    before = [[_bits(x.translations), _bits(x.rotations), _bits(x.scores), _bits(x.details)] for x in objs]
    first = {}
    ok = True
    size = o["t"].shape[0] + o2["t"].shape[0] + len(steps)
    ext = {"text": "txt", "relion": "star", "dynamo": "tbl"}
    for k, (who, fmt, cfg) in enumerate(steps):
        path = _file(ctx, "c11s." + ext[fmt])
        n = src[who]["t"].shape[0]
        kw = star_kwargs(cfg, n) if fmt == "relion" else dict(cfg)
        _, err = _quiet(objs[who].to_file, path, fmt, **kw)
        if err:
            return ctx.spec("session: writing succeeds", {**inp, "step": k}, False, err, key="session:write-raises", size=size)
        content = _read(path)
        sig = (who, fmt, json_key(cfg))
        if sig in first:
            ok &= ctx.spec("session: writing the same orientation set again gives the same file", {**inp, "step": k},
                           content == first[sig], key="session:rewrite-differs:" + fmt, size=size)
        else:
            first[sig] = content
        back, err = _quiet(Orientations.from_file, path)
        if err:
            ok &= ctx.spec("session: reading back succeeds", {**inp, "step": k}, False, err, key="session:read-raises:" + fmt, size=size)
        else:
            bad = _same_set(src[who], back, fmt)
            ok &= ctx.spec("session: every write of a long-lived object reads back as the orientation set it was built from",
                           {**inp, "step": k}, bad is None, bad, key="session:roundtrip:" + fmt, size=size)
        if not ok:
            break
    after = [[_bits(x.translations), _bits(x.rotations), _bits(x.scores), _bits(x.details)] for x in objs]
    ok &= ctx.spec("session: writing leaves the orientation set unchanged", inp, after == before, key="session:object-changed", size=size)
    ctx.count("session:steps=" + str(len(steps)))
    ctx.distinct(("session", _crc(json_key(inp))))
    return ok


def json_key(x):
    import json
    return json.dumps(x, sort_keys=True, default=str)


def gen_session(rng):
    steps = []
    for _ in range(int(rng.integers(3, 8))):
        fmt = str(rng.choice(["text", "relion", "dynamo"]))
        if fmt == "relion":
            cfg = STAR_CFGS[int(rng.integers(0, len(STAR_CFGS)))]
        elif fmt == "dynamo":
            cfg = {} if rng.random() < 0.6 else {"sampling_rate": 2.5}
        else:
            cfg = {}
        steps.append([int(rng.integers(0, 2)), fmt, cfg])
    if rng.random() < 0.7:                    # make sure something is written twice
        steps.append(list(steps[0]))
    return steps

# ------------------------------------------------------------------------------------------ source-tied tables

def extract_layout():
    """read the column layouts out of the source of tme/orientations.py (AST)"""
    import tme.orientations as mod
    src = open(mod.__file__).read()
    tree = ast.parse(src)
    fn = {n.name: n for n in ast.walk(tree) if isinstance(n, ast.FunctionDef)}
    out = {}
    # _to_dynamo_tbl: the `out = [...]` literal
    for node in ast.walk(fn["_to_dynamo_tbl"]):
        if isinstance(node, ast.Assign) and getattr(node.targets[0], "id", None) == "out" and isinstance(node.value, ast.List):
            toks = []
            for e in node.value.elts:
                s = ast.unparse(e)
                if s == "index":
                    toks.append("IDX")
                elif s == "*rotation":
                    toks += ["A0", "A1", "A2"]
                elif s == "self.scores[index]":
                    toks.append("SC")
                elif s == "*translation[::-1]":
                    toks += ["TX", "TY", "TZ"]
                elif s == "sampling_rate":
                    toks.append("SR")
                else:
                    toks.append(str(ast.literal_eval(e)))
            out["tbl"] = toks
    # _from_tbl: subscripts of `peak`, and the expected width
    subs = []
    width = None
    for node in ast.walk(fn["_from_tbl"]):
        if isinstance(node, ast.Subscript) and getattr(node.value, "id", None) == "peak":
            subs.append((node.lineno, node.col_offset, ast.literal_eval(node.slice)))
        if isinstance(node, ast.Compare) and isinstance(node.comparators[0], ast.Constant) and isinstance(node.comparators[0].value, int):
            if "data[0]" in ast.unparse(node):
                width = node.comparators[0].value
    out["tbl_read"] = [x[2] for x in sorted(subs)]
    out["tbl_width"] = width
    # _to_relion_star: the two header lists
    for node in ast.walk(fn["_to_relion_star"]):
        if isinstance(node, ast.Assign) and isinstance(node.value, ast.List):
            name = getattr(node.targets[0], "id", None)
            if name in ("optics_header", "header"):
                out[name] = [ast.literal_eval(e) if isinstance(e, ast.Constant) else "<" + ast.unparse(e) + ">" for e in node.value.elts]
    # _from_relion_star: the columns read
    out["star_read"] = [x[2] for x in sorted((n.lineno, n.col_offset, ast.literal_eval(n.slice))
                                             for n in ast.walk(fn["_from_relion_star"])
                                             if isinstance(n, ast.Subscript) and getattr(n.value, "id", None) == "ret")]
    return out


def obligations(ctx):
    lay, err = _quiet(extract_layout)
    if err or lay is None:
        ctx.obligation("extract column layouts from tme/orientations.py", False, err)
        return
    m = ctx.driver.call("c11.layout")
    ctx.obligation("tbl writer layout (38 columns) == model.tblTokens", lay.get("tbl") == m["tbl"] and len(m["tbl"]) == 38,
                   {"source": lay.get("tbl"), "model": m["tbl"]})
    ctx.obligation("tbl reader columns == model.readTblRow", lay.get("tbl_read") == [6, 7, 8, 9, 25, 24, 23] and lay.get("tbl_width") == 38,
                   {"source": [lay.get("tbl_read"), lay.get("tbl_width")]})
    ctx.obligation("STAR optics header == model.opticsHeader", lay.get("optics_header") == m["optics"],
                   {"source": lay.get("optics_header"), "model": m["optics"]})
    ctx.obligation("STAR particle header == model.particleHeader",
                   lay.get("header") == m["particlesNoName"], {"source": lay.get("header"), "model": m["particlesNoName"]})
    ctx.obligation("STAR reader columns == model.readStar",
                   lay.get("star_read") == ["_rlnCoordinateZ", "_rlnCoordinateY", "_rlnCoordinateX", "_rlnAngleRot", "_rlnAngleTilt", "_rlnAnglePsi"],
                   {"source": lay.get("star_read")})
    import string
    ctx.obligation("text header naming == ascii_lowercase reversed",
                   ctx.driver.call("c11.textHeader", d=26, r=26) ==
                   list(string.ascii_lowercase[::-1]) + ["euler_" + c for c in string.ascii_lowercase[::-1]] + ["score", "detail"])


# ------------------------------------------------------------------------------------------ corpus / replay

def replay_input(ctx, inp):
    fam = inp.get("family")
    if fam == "text":
        return check_text(ctx, orient_from_json(inp["orient"]), "replay")
    if fam == "star":
        return check_star(ctx, orient_from_json(inp["orient"]), inp.get("cfg", {}), "replay")
    if fam == "dynamo":
        return check_tbl(ctx, orient_from_json(inp["orient"]), inp.get("sampling_rate"), "replay", extra=inp.get("extra"))
    if fam == "windows":
        return check_windows(ctx, orient_from_json(inp["orient"]), inp["target"], inp["box"], "replay", inp.get("call", "tuple"))
    if fam == "text-permuted":
        return check_text_permuted(ctx, orient_from_json(inp["orient"]), inp["perm"])
    if fam == "dispatch":
        return check_dispatch(ctx, orient_from_json(inp["orient"]), inp["fname"], inp.get("write_format"), inp.get("read_format"))
    if fam == "session":
        return check_session(ctx, orient_from_json(inp["orient"]), orient_from_json(inp["orient2"]), inp["steps"])
    if fam == "copy":
        return check_copy(ctx, orient_from_json(inp["orient"]))
    if fam == "post_init":
        return check_post_init(ctx, inp["shapes"], inp.get("container", "array"))
    if fam == "subset":
        return check_subset(ctx, orient_from_json(inp["orient"]), inp["sel"], inp["kind"], inp.get("container", "array"))
    if fam == "text-foreign":
        return check_foreign_text(ctx, inp["text"], "replay")
    if fam == "star-foreign":
        return check_foreign_star(ctx, inp["text"], "replay", inp.get("delimiter"))
    if fam == "dynamo-foreign":
        return check_foreign_tbl(ctx, inp["text"])
    ctx.note("replay: unknown family " + str(fam))


def replay(ctx, rec):
    obligations(ctx)
    inp = rec.get("input")
    if inp:
        replay_input(ctx, inp)
    for dis in rec.get("correspondence_disagreements", []) or rec.get("correspondence", []) or []:
        if dis.get("input"):
            replay_input(ctx, dis["input"])


def corpus(ctx):
    import glob
    import json
    from pv import env
    for f in sorted(glob.glob(os.path.join(env.VERIF, "corpus", "C11_*.json"))):
        rec = json.load(open(f))
        for inp in rec.get("inputs", [rec.get("input")] if rec.get("input") else []):
            replay_input(ctx, inp)
            ctx.count("corpus")


# ------------------------------------------------------------------------------------------ run

def fixed_cases(ctx):
    """small hand-picked cases: every format with 0 and 1 rows, gimbal lock, 2-D text"""
    z = np.zeros
    for d, r in ((3, 3), (2, 2), (2, 1), (3, 1), (1, 1), (4, 3)):
        o = {"t": z((0, d), np.float32), "a": z((0, r), np.float32), "s": z(0, np.float32), "d": z(0, np.float32), "tmode": "zero", "amode": "zero"}
        check_text(ctx, o, "zero")
    o0 = {"t": z((0, 3), np.float32), "a": z((0, 3), np.float32), "s": z(0, np.float32), "d": z(0, np.float32), "tmode": "zero", "amode": "zero"}
    for cfg in ({}, {"name": "tomo.mrc"}, {"name": "LIST", "ctf_image": "w.mrc"}):
        check_star(ctx, o0, cfg, "zero")
    check_tbl(ctx, o0, None, "zero")
    g = {"t": np.array([[1.5, 2.25, 3.0], [10, 20, 30], [0.1, 0.2, 0.3], [7, 7, 7]], np.float32),
         "a": np.array([[10, 90, 30], [0, -90, 0], [-170, 45, 180], [0, 0, 0]], np.float32),
         "s": np.array([0.5, 1, -2, 0], np.float32), "d": np.array([-1, 3, 0, 1], np.float32), "tmode": "fixed", "amode": "gimbal"}
    check_text(ctx, g)
    for cfg in STAR_CFGS:
        check_star(ctx, g, cfg)
    check_tbl(ctx, g)
    check_tbl(ctx, g, 2.5)
    check_tbl(ctx, g, 4, extra={"name_prefix": "sub", "subtomogram_size": 16})
    # every documented format name on both sides, every file-name spelling with both formats left out
    for nm in FORMAT_NAMES:
        check_dispatch(ctx, g, "picks.dat", nm, nm)
    for ext in FILE_EXTS:
        check_dispatch(ctx, g, "picks" + ext, None, None)
    for nm in OTHER_NAMES:
        check_dispatch(ctx, g, "picks.tbl", nm, None)
        check_dispatch(ctx, g, "picks.tbl", None, nm)
    check_dispatch(ctx, o0, "empty.TBL", None, None)
    check_dispatch(ctx, o0, "empty.Star", None, None)
    check_copy(ctx, g)
    check_copy(ctx, o0)
    # constructor: every combination of ranks 0..3 for the four arrays (2 rows), and of row counts 0..2 at the expected ranks
    import itertools
    dims = {0: [], 1: [2], 2: [2, 3], 3: [2, 3, 1]}
    for ranks in itertools.product(range(4), repeat=4):
        check_post_init(ctx, [dims[k] for k in ranks])
    for ns in itertools.product(range(3), repeat=4):
        check_post_init(ctx, [[ns[0], 3], [ns[1], 3], [ns[2]], [ns[3]]], "list" if sum(ns) % 2 else "array64")
    # tables with more rows than 8- / 16-bit counters hold (thorough: more than 10 000 rows through every format)
    nb = ctx.budget(300, 12000)
    check_text(ctx, synthetic(nb, 3, 3, 1), shrink=False)
    check_star(ctx, synthetic(nb, 3, 3, 2), {"name": "tomo.mrc"}, shrink=False)
    check_tbl(ctx, synthetic(nb, 3, 3, 3), shrink=False)
    for n, sel in ((300, [0, 255, 256, 299, -1, -300, -256, 128]), (40000, [32767, 32768, 39999, -40000, -32769, 0, 255, 256]),
                   (70000, [65535, 65536, 69999, -70000, 32768, -1, 1, 65537])):
        for cont in ("array", "list", "array:int32", "view"):
            check_subset(ctx, synthetic(n, 3, 3, n), sel, "int", container=cont)
    for n in (300, 40000):
        mask = [(i % 257 == 3) or i in (0, 255, 256, n - 1, 32768) for i in range(n)]
        check_subset(ctx, synthetic(n, 3, 3, n), mask, "bool", container="array")


SUBSET_DTYPES = ["array:int8", "array:int16", "array:int32", "array:uint8", "array:uint16", "array:uint32", "array:uint64", "array:intp"]


def stream(ctx, rng, scale=1.0, wide=False):
    nb = lambda q, t: max(1, int(ctx.budget(q, t) * scale))
    # text: 2-D / 3-D (and a few other widths), angle columns 1..3 (0 = no angles, compared with the model only)
    for _ in range(nb(400, 4000)):
        d = int(rng.choice([3, 3, 3, 2, 2, 1, 4] + ([5, 26] if wide else [])))
        r = int(rng.choice([3, 3, 2, 1, d] + ([0] if rng.random() < 0.15 else [])))
        check_text(ctx, gen_orient(rng, n_rows(ctx, rng), d, r, exotic=True))
    for _ in range(nb(600, 6000)):
        check_foreign_text(ctx, *gen_foreign_text(rng))
    for _ in range(nb(200, 2000)):
        d = int(rng.choice([3, 3, 2, 1, 4]))
        r = int(rng.choice([3, 3, 2, 1]))
        check_text_permuted(ctx, gen_orient(rng, int(rng.choice([0, 1, 2, 5])), d, r, exotic=True), [int(x) for x in rng.permutation(d + r)])
    for _ in range(nb(200, 1600)):
        fname = str(rng.choice(FILE_STEMS)) + str(rng.choice(FILE_EXTS))
        k = rng.random()
        names = [None] + FORMAT_NAMES
        if k < 0.45:
            wf = rf = None
        elif k < 0.75:
            wf = rf = names[int(rng.integers(0, 4))]
        elif k < 0.9:
            wf, rf = names[int(rng.integers(0, 4))], names[int(rng.integers(0, 4))]
        else:
            wf, rf = [(None, str(rng.choice(OTHER_NAMES))), (str(rng.choice(OTHER_NAMES)), None)][int(rng.integers(0, 2))]
        check_dispatch(ctx, gen_orient(rng, int(rng.choice([0, 1, 2, 4])), 3, 3), fname, wf, rf)
    for _ in range(nb(60, 500)):
        check_session(ctx, gen_orient(rng, int(rng.choice([1, 2, 5])), 3, 3), gen_orient(rng, int(rng.choice([0, 1, 3])), 3, 3),
                      gen_session(rng))
    for _ in range(nb(250, 2000)):
        cfg = STAR_CFGS[int(rng.integers(0, len(STAR_CFGS)))]
        check_star(ctx, gen_orient(rng, n_rows(ctx, rng), 3, 3), cfg)
    for _ in range(nb(500, 5000)):
        t, kind = gen_foreign_star(rng)
        check_foreign_star(ctx, t, kind, None if rng.random() < 0.8 else str(rng.choice(["\t", " "])))
    for _ in range(nb(250, 2000)):
        sr = None if rng.random() < 0.7 else [2.5, 13.33, 4.0, 4][int(rng.integers(0, 4))]
        extra = None if rng.random() < 0.8 else [{"name_prefix": "sub"}, {"subtomogram_size": 32}, {"name_prefix": "p", "subtomogram_size": 7}][int(rng.integers(0, 3))]
        check_tbl(ctx, gen_orient(rng, n_rows(ctx, rng), 3, 3), sr, extra=extra)
    for _ in range(nb(300, 3000)):
        check_foreign_tbl(ctx, gen_foreign_tbl(rng))
    # subsetting
    for _ in range(nb(600, 6000)):
        n = int(rng.choice([0, 1, 2, 3, 5, 9, 20]))
        o = gen_orient(rng, n, int(rng.choice([2, 3])), int(rng.choice([1, 3])))
        if rng.random() < 0.5:
            k = int(rng.integers(0, 2 * n + 2))
            lo, hi = (-n, n) if rng.random() < 0.85 or n == 0 else (-n - 2, n + 2)
            sel = [int(x) for x in rng.integers(lo, max(hi, lo + 1), size=k)] if n or lo < hi else []
            if n == 0:
                sel = [] if rng.random() < 0.7 else [0]
            if n and rng.random() < 0.3:      # the boundary indices
                sel = sel + [n - 1, -n, 0, -1]
            check_subset(ctx, o, sel, "int", container=str(rng.choice(["array", "array", "list", "tuple", "view", "readonly"] + SUBSET_DTYPES)))
        else:
            m = n if rng.random() < 0.9 else n + int(rng.choice([-1, 1]))
            sel = [bool(x) for x in rng.random(max(m, 0)) < rng.choice([0.0, 0.3, 0.7, 1.0])]
            check_subset(ctx, o, sel, "bool", container=str(rng.choice(["array", "array", "list", "tuple", "view", "readonly"])))
    for _ in range(nb(60, 400)):
        check_copy(ctx, gen_orient(rng, int(rng.choice([0, 1, 2, 7])), int(rng.choice([2, 3])), int(rng.choice([1, 3]))))
    for _ in range(nb(300, 3000)):
        check_post_init(ctx, gen_post_init(rng), str(rng.choice(POST_INIT_CONTAINERS)))
    # windows
    calls = list(WINDOW_CALLS)
    for _ in range(nb(1000, 8000)):
        check_windows(ctx, *gen_window_case(rng, ctx, wide), call=calls[int(rng.integers(0, len(calls)))] if rng.random() < 0.4 else "tuple")
    for _ in range(nb(250, 2000)):
        check_windows(ctx, *gen_window_case(rng, ctx, wide, scale="big"), call=calls[int(rng.integers(0, len(calls)))])
    for _ in range(nb(80, 600)):
        check_windows(ctx, *gen_window_case(rng, ctx, wide, scale="huge"), call=calls[int(rng.integers(0, len(calls)))])


def windows_exhaustive(ctx):
    """every (target, box, peak) on one axis up to a bound, and 2-D products of a few"""
    B = ctx.budget(7, 12)
    for T in range(1, B + 1):
        for e in range(0, B + 3):
            t = np.arange(-2, T + 3, dtype=np.float32).reshape(-1, 1)
            n = t.shape[0]
            o = {"t": t, "a": np.zeros((n, 1), np.float32), "s": np.arange(n, dtype=np.float32), "d": np.zeros(n, np.float32),
                 "tmode": "exhaustive", "amode": "zero"}
            check_windows(ctx, o, [T], [e], "exhaustive")


def run(ctx):
    obligations(ctx)
    corpus(ctx)
    fixed_cases(ctx)
    windows_exhaustive(ctx)
    stream(ctx, ctx.rng("main"))
    rng = ctx.rng("samples")
    o = gen_orient(rng, 2, 3, 3)
    p = _file(ctx, "sample.star")
    _quiet(make(o).to_file, p, "relion", name="tomo.mrc")
    ctx.sample({"format": "relion", "orientations": orient_json(o), "file": _read(p)})
    p = _file(ctx, "sample.tbl")
    _quiet(make(o).to_file, p, "dynamo")
    ctx.sample({"format": "dynamo", "file": _read(p)})
    p = _file(ctx, "sample.txt")
    _quiet(make(o).to_file, p, "text")
    ctx.sample({"format": "text", "file": _read(p)})
    ctx.sample({"windows": {"target": [10, 9], "box": [4, 5], "peaks": [[0, 4], [5, 5], [9, 8]],
                            "model": ctx.driver.call("c11.extraction", target=[10, 9], box=[4, 5], peaks=[[0, 4], [5, 5], [9, 8]], drop=False)}})


def search(ctx):
    """correspondence or an obligation broke: evaluate the property's clauses on a wider stream (smaller and larger
    tables, more widths, wider windows); failing inputs are shrunk to single rows by the check functions"""
    for dis in list(ctx.disagreements)[:40]:
        try:
            replay_input(ctx, dis["input"])
        except Exception:
            pass
    for k in range(3):
        stream(ctx, ctx.rng(f"search{k}"), scale=0.6, wide=True)
        if ctx.spec_failures:
            break
