"""Build / locate everything a check needs: the C++ extension built from /repo's
working tree, the Lean library + driver, python path for child processes."""
import fcntl
import hashlib
import os
import shutil
import subprocess
import sys
import tempfile
import atexit

VERIF = os.path.dirname(os.path.dirname(os.path.dirname(os.path.abspath(__file__))))
REPO = os.environ.get("PYTME_REPO", "/repo")
BUILD = os.path.join(VERIF, ".build")
LEAN_DIR = os.path.join(VERIF, "lean")
PY = "/venv/bin/python"
SITE = os.path.join(VERIF, "harness", "site")
HARNESS = os.path.join(VERIF, "harness")


class BuildError(Exception):
    def __init__(self, what, log):
        super().__init__(what)
        self.what = what
        self.log = log


def _lock(name):
    os.makedirs(BUILD, exist_ok=True)
    f = open(os.path.join(BUILD, name + ".lock"), "w")
    fcntl.flock(f, fcntl.LOCK_EX)
    return f


def build_extension():
    src = os.path.join(REPO, "tme", "external", "bindings.cpp")
    h = hashlib.sha256(open(src, "rb").read()).hexdigest()[:20]
    out_dir = os.path.join(BUILD, "ext")
    os.makedirs(out_dir, exist_ok=True)
    out = os.path.join(out_dir, f"extensions_{h}.so")
    if os.path.exists(out):
        return out
    lk = _lock("ext")
    try:
        if os.path.exists(out):
            return out
        inc = subprocess.check_output([PY, "-m", "pybind11", "--includes"], text=True).split()
        tmp = out + f".tmp{os.getpid()}"
        cmd = ["c++", "-O3", "-march=native", "-std=c++11", "-funroll-loops", "-ffast-math",
               "-shared", "-fPIC", "-fvisibility=hidden", *inc, src, "-o", tmp]
        p = subprocess.run(cmd, capture_output=True, text=True)
        if p.returncode != 0:
            raise BuildError("extension", p.stdout + p.stderr)
        os.replace(tmp, out)
        for f in os.listdir(out_dir):  # keep disk small
            fp = os.path.join(out_dir, f)
            if fp != out and f.endswith(".so"):
                try:
                    os.remove(fp)
                except OSError:
                    pass
        return out
    finally:
        lk.close()


def lean_build(targets=("PytmeModel", "driver")):
    """lake build (no-op when nothing changed).  Returns (ok, log)."""
    lk = _lock("lake")
    try:
        p = subprocess.run(["lake", "build", *targets], cwd=LEAN_DIR, capture_output=True, text=True)
        return p.returncode == 0, p.stdout + p.stderr
    finally:
        lk.close()


def driver_path():
    return os.path.join(LEAN_DIR, ".lake", "build", "bin", "driver")


def child_env(extra=None):
    env = dict(os.environ)
    env["PYTHONPATH"] = os.pathsep.join([SITE, HARNESS, REPO])
    env["PYTME_VERIF_EXT"] = build_extension()
    env["PYTME_REPO"] = REPO
    env.setdefault("OMP_NUM_THREADS", "1")
    env["PYTHONWARNINGS"] = "ignore"
    if extra:
        env.update(extra)
    return env


_tmp = None


def scratch():
    """A scratch directory removed at exit (outside /repo and /verif)."""
    global _tmp
    if _tmp is None:
        _tmp = tempfile.mkdtemp(prefix="pytme_verif_")
        atexit.register(shutil.rmtree, _tmp, True)
    return _tmp


def reexec_if_needed():
    """Make sure this very process imports tme from /repo with the fresh extension."""
    want = build_extension()
    if os.environ.get("PYTME_VERIF_EXT") == want and os.environ.get("PYTME_VERIF_REEXEC") == "1":
        return
    env = child_env({"PYTME_VERIF_REEXEC": "1"})
    os.execve(PY, [PY, "-m", "pv.main"] + sys.argv[1:], env)
