import json
import os

from . import env

PATH = os.path.join(env.VERIF, "known_findings.json")


def load():
    if not os.path.exists(PATH):
        return []
    return json.load(open(PATH))["findings"]


def known_for(pid):
    return {f["key"]: f for f in load() if f["property"] == pid and f["status"] == "known"}
