import glob
import json
import os

from . import env

PATH = os.path.join(env.VERIF, "known_findings.json")
FRAG = os.path.join(env.VERIF, "findings.d")


def load():
    """known_findings.json plus per-property fragments findings.d/<ID>.json (same entry format).
    Both are committed; neither is ever written at run time."""
    out = []
    if os.path.exists(PATH):
        out += json.load(open(PATH))["findings"]
    for f in sorted(glob.glob(os.path.join(FRAG, "*.json"))):
        out += json.load(open(f))["findings"]
    return out


def known_for(pid):
    return {f["key"]: f for f in load() if f["property"] == pid and f["status"] == "known"}
