"""C16: program points, exception kinds and user-level objects added on top of pv.faults.

`install()` runs in EVERY python process of the check: pv.props.c16._setup() puts a directory with a chained
`sitecustomize.py` in front of PYTHONPATH (it executes harness/site/sitecustomize.py, then calls `install()`),
so loky / joblib workers carry the same hooks as the check process.  Nothing of pyTME is changed otherwise.

Program points added (logged / delayed / faulted through pv.faults.point):
  alloc   (t, k)   the k-th `SharedMemoryManager.SharedMemory(size)` (= `be.to_sharedarr(arr, handler)`) made by the
                   `scan` working on tile t; a fault here is "the segment cannot be created" (/dev/shm exhausted)
  filter  (t, i)   the user's template filter (i = 0) / target filter (i = 1) is evaluated by
                   `_setup_template_filter_apply_target_filter` (FilterTap below is an ordinary user filter:
                   a callable handed to tme.preprocessing.Compose)
  collect (t, j)   `tuple(callback._postprocess(...))` in scan: the j-th post-processed analyzer's `__iter__` (which
                   copies its results out of shared memory) is entered
Exception kinds added to pv.faults._EXC: exceptions without arguments, falsy exception objects, warnings raised
as errors.  `NonSharedMax` is a user analyzer with `shared = False` (one instance per `jobs_per_callback_class`
jobs)."""
import functools

import numpy as np

import pv.faults as F

_installed = False
_alloc = {"n": 0}


class PvNoArgs(RuntimeError):
    """raised like `raise SomeError` / `MemoryError()`: `args` is empty; the position travels in an attribute
    (restored by unpickling: BaseException.__reduce__ carries __dict__)"""

    def __init__(self, msg=None):
        super().__init__()
        if msg is not None:
            self.pvpos = msg


class PvFalsy(RuntimeError):
    """an exception object that is falsy (`if last_value:` is not `if last_value is not None:`)"""

    def __bool__(self):
        return False

    def __len__(self):
        return 0


class PvWarning(UserWarning):
    """a warning turned into an error (`warnings.simplefilter("error")`, numpy `seterr(all="raise")`)"""


KINDS = {"PvNoArgs": PvNoArgs, "PvFalsy": PvFalsy, "PvWarning": PvWarning}
# the concrete built-in Exception classes that take a single message (what `except <SomeClass>:` clauses name)
BUILTIN_KINDS = ["ArithmeticError", "FloatingPointError", "OverflowError", "BufferError", "EOFError", "ImportError",
                 "ModuleNotFoundError", "LookupError", "NameError", "UnboundLocalError", "BlockingIOError", "ChildProcessError",
                 "ConnectionError", "BrokenPipeError", "ConnectionAbortedError", "ConnectionRefusedError", "ConnectionResetError",
                 "FileExistsError", "FileNotFoundError", "InterruptedError", "IsADirectoryError", "NotADirectoryError",
                 "PermissionError", "ProcessLookupError", "TimeoutError", "ReferenceError", "RecursionError", "StopAsyncIteration",
                 "SyntaxError", "SystemError", "UnicodeError", "RuntimeWarning", "DeprecationWarning", "ResourceWarning"]
import builtins as _b
for _k in BUILTIN_KINDS:
    KINDS[_k] = getattr(_b, _k)


def _chameleons():
    """Few classes that are instances of MANY built-in exception classes at once (multiple inheritance; classes whose C
    layouts conflict go to different groups): an `except FileNotFoundError:` / `except ArithmeticError:` ... clause on the
    way of a failure catches the group's chameleon, so the quick tier covers the whole built-in hierarchy at every program
    point with a handful of kinds (the thorough tier raises every class by itself)."""
    names = ["ZeroDivisionError", "KeyError", "IndexError", "AssertionError", "TypeError", "ValueError", "MemoryError",
             "NotImplementedError"] + BUILTIN_KINDS
    groups = []
    for nm in names:
        cls = getattr(_b, nm)
        for g in groups:
            if any(issubclass(c, cls) for c in g):      # already an instance of it
                break
            try:
                type("_probe", tuple([c for c in g if not issubclass(cls, c)] + [cls]), {})
            except TypeError:
                continue
            g[:] = [c for c in g if not issubclass(cls, c)] + [cls]
            break
        else:
            groups.append([cls])
    out = {}
    for i, g in enumerate(groups):
        out[f"PvChameleon{i}"] = type(f"PvChameleon{i}", tuple(g), {"__module__": __name__, "__str__": lambda self: self.args[0] if self.args else ""})
    return out


CHAMELEONS = _chameleons()
globals().update(CHAMELEONS)
KINDS.update(CHAMELEONS)


class FilterTap:
    """A user filter in the protocol of tme.preprocessing.Compose: called with `shape=...` (real-space shape), returns
    {"data": real-Fourier weights}.  A mild, strictly positive low-pass, so scores keep their structure."""

    def __init__(self, idx):
        self.idx = int(idx)

    def __call__(self, shape=None, **kwargs):
        F.point("filter", F._cur_tile(), self.idx)
        shape = tuple(int(x) for x in shape)
        freqs = [np.fft.fftfreq(n) for n in shape[:-1]] + [np.fft.rfftfreq(shape[-1])]
        grids = np.meshgrid(*freqs, indexing="ij", sparse=True)
        r2 = sum(g * g for g in grids)
        data = np.exp(-r2 / (2 * 0.45 ** 2)).astype(np.float32)
        return {"data": data, "is_multiplicative_filter": True}


def make_filter(idx):
    from tme.preprocessing import Compose
    return Compose((FilterTap(idx),))


def nonshared_class():
    """MaxScoreOverRotations with `shared = False`: scan builds max(n_jobs // jobs_per_callback_class, 1) instances"""
    import tme.analyzer as an
    cls = getattr(an, "_PvNonSharedMax", None)
    if cls is None:
        cls = type("_PvNonSharedMax", (an.MaxScoreOverRotations,), {"shared": False, "__module__": an.__name__})
        an._PvNonSharedMax = cls      # importable by name in every process (install() runs everywhere)
    return cls


def install():
    global _installed
    if _installed or not F._dir():
        return
    F.install()
    _installed = True
    F._EXC.update(KINDS)
    nonshared_class()

    from multiprocessing import managers as mg
    import tme.matching_exhaustive as me

    cur = mg.SharedMemoryManager.SharedMemory      # pv.faults' wrapper (marks the segment as managed)
    if not getattr(cur, "_pv16", False):
        @functools.wraps(cur)
        def SharedMemory(self, size):
            if F._proc["in_scan"] > 0:
                k = _alloc["n"]
                _alloc["n"] += 1
                F.point("alloc", F._cur_tile(), k)
            return cur(self, size)
        SharedMemory._pv16 = True
        mg.SharedMemoryManager.SharedMemory = SharedMemory

    orig_scan = me.scan                            # pv.faults' wrapper around the decorated scan
    if not getattr(orig_scan, "_pv16", False):
        @functools.wraps(orig_scan)
        def scan(*a, **k):
            prev = _alloc["n"]
            _alloc["n"] = 0
            try:
                return orig_scan(*a, **k)
            finally:
                _alloc["n"] = prev
        scan._pv16 = True
        scan._pv = True
        me.scan = scan

    # results collection: the first __iter__ of an analyzer after scan post-processed it
    import tme.analyzer as an

    def wrap_post(o):
        @functools.wraps(o)
        def _postprocess(self, *a, **k):
            j = F._proc["post_n"]          # pv.faults' wrapper (inside `o`) numbers this call j and increments
            ret = o(self, *a, **k)
            if F._proc["in_scan"] > 0 and ret is not None:
                try:
                    ret._pv_collect = (F._cur_tile(), j)
                except AttributeError:
                    pass
            return ret
        _postprocess._pv16 = True
        _postprocess._pv = True
        return _postprocess

    def wrap_iter(o):
        @functools.wraps(o)
        def __iter__(self):
            mark = self.__dict__.pop("_pv_collect", None)
            if mark is not None and F._proc["in_scan"] > 0:
                F.point("collect", mark[0], mark[1])
            return o(self)
        __iter__._pv16 = True
        return __iter__

    for cname in dir(an):
        cls = getattr(an, cname)
        if not isinstance(cls, type) or cls.__module__ != an.__name__:
            continue
        d = vars(cls)
        if "_postprocess" in d and not getattr(d["_postprocess"], "_pv16", False):
            setattr(cls, "_postprocess", wrap_post(d["_postprocess"]))
        if "__iter__" in d and not getattr(d["__iter__"], "_pv16", False):
            setattr(cls, "__iter__", wrap_iter(d["__iter__"]))


SITECUSTOMIZE = '''# generated by pv.props.c16: the harness' sitecustomize, then the C16 hooks
import os as _os, sys as _sys
_orig = {orig!r}
with open(_orig) as _f:
    exec(compile(_f.read(), _orig, "exec"))
if _os.environ.get("PYTME_VERIF") == "1" and _os.environ.get("PYTME_VERIF_FAULTS"):
    try:
        import pv.c16_hooks as _h
        _h.install()
    except Exception as _e:  # pragma: no cover
        _sys.stderr.write("[pytme-verif] C16 hook install failed: %r\\n" % (_e,))
'''
