"""Proof-obligation audit: every theorem in lean/PytmeModel/Props/<ID>.lean must compile,
contain no sorry/admit/native_decide/..., and depend on the three standard axioms only."""
import hashlib
import json
import os
import re
import subprocess

from . import env

ALLOWED = {"propext", "Classical.choice", "Quot.sound"}
FORBIDDEN = re.compile(r"\b(sorry|admit|native_decide|bv_decide|implemented_by|unsafe|maxHeartbeats 0)\b|^\s*axiom\s", re.M)


def strip_comments(src):
    src = re.sub(r"/-.*?-/", "", src, flags=re.S)
    src = re.sub(r"--.*", "", src)
    return src


def lean_sources(pid):
    base = os.path.join(env.LEAN_DIR, "PytmeModel")
    out = []
    for sub in ("Model", "Proofs", "Props", "Extracted"):
        d = os.path.join(base, sub)
        if os.path.isdir(d):
            for f in sorted(os.listdir(d)):
                if f.endswith(".lean"):
                    out.append(os.path.join(d, f))
    return out


def theorems_of(pid):
    path = os.path.join(env.LEAN_DIR, "PytmeModel", "Props", f"{pid}.lean")
    if not os.path.exists(path):
        return path, []
    src = strip_comments(open(path).read())
    ns = None
    names = []
    stack = []
    for line in src.splitlines():
        m = re.match(r"\s*namespace\s+(\S+)", line)
        if m:
            stack.append(m.group(1))
            continue
        m = re.match(r"\s*end\s+(\S+)", line)
        if m and stack and stack[-1] == m.group(1):
            stack.pop()
            continue
        m = re.match(r"\s*(?:@\[[^\]]*\]\s*)?(?:private\s+|protected\s+)?theorem\s+(\S+)", line)
        if m:
            names.append(".".join(stack + [m.group(1)]))
    return path, names


def audit(pid):
    """Returns dict(obligations, discharged, theorems, problems, axioms, checker_cmd)."""
    path, names = theorems_of(pid)
    problems = []
    for f in lean_sources(pid):
        src = strip_comments(open(f).read())
        for m in FORBIDDEN.finditer(src):
            problems.append(f"{os.path.relpath(f, env.VERIF)}: forbidden token {m.group(0).strip()!r}")
    res = {"obligations": len(names), "discharged": 0, "theorems": names, "problems": problems,
           "axioms": {}, "checker_cmd": f"cd lean && lake build && lake env lean <#print axioms of Props/{pid}.lean theorems>"}
    if not names:
        problems.append(f"no theorems found in {path}")
        return res
    # cache keyed by olean hash of the Props module
    olean = os.path.join(env.LEAN_DIR, ".lake", "build", "lib", "lean", "PytmeModel", "Props", f"{pid}.olean")
    key = None
    cache_f = os.path.join(env.BUILD, f"audit_{pid}.json")
    if os.path.exists(olean):
        key = hashlib.sha256(open(olean, "rb").read() + "\n".join(names).encode()).hexdigest()
        if os.path.exists(cache_f):
            c = json.load(open(cache_f))
            if c.get("key") == key:
                res["axioms"] = c["axioms"]
    if not res["axioms"]:
        tmp = os.path.join(env.BUILD, f"Audit_{pid}_{os.getpid()}.lean")
        with open(tmp, "w") as fh:
            fh.write(f"import PytmeModel.Props.{pid}\n")
            for n in names:
                fh.write(f"#print axioms {n}\n")
        p = subprocess.run(["lake", "env", "lean", tmp], cwd=env.LEAN_DIR, capture_output=True, text=True)
        os.remove(tmp)
        out = p.stdout + p.stderr
        txt = out.replace("\n  ", " ")
        for n in names:
            m = re.search(r"'" + re.escape(n) + r"' depends on axioms: \[([^\]]*)\]", txt, flags=re.S)
            if m:
                res["axioms"][n] = sorted(a.strip() for a in m.group(1).replace("\n", " ").split(",") if a.strip())
            elif re.search(r"'" + re.escape(n) + r"' does not depend on any axioms", txt):
                res["axioms"][n] = []
            else:
                problems.append(f"theorem {n}: not found / did not check ({out.strip()[:300]})")
        if key and not [p_ for p_ in problems if "not found" in p_]:
            json.dump({"key": key, "axioms": res["axioms"]}, open(cache_f, "w"))
    for n, ax in res["axioms"].items():
        bad = [a for a in ax if a not in ALLOWED]
        if bad:
            problems.append(f"theorem {n}: non-standard axioms {bad}")
        else:
            res["discharged"] += 1
    return res
