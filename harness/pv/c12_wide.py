"""C12, widened input space.  Every check here is a deterministic function `run_case(ctx, case)` of a JSON
case record (so a replay re-executes exactly the failing input); the generators `gen_*` draw such records.

Dimensions added to those of props/c12.py:
 * argument *representations*: cut-offs as int / float / numpy scalars, sampling rates / angles / weights / defoci as
   tuple / list / ndarray (float64, float32 as `Wedge.from_file` stores them), shapes as tuple / list / ndarray /
   numpy integers; keyword arguments the filter does not know (what `Compose` / template matching pass along);
 * larger, non-cubic and degenerate shapes (extents 2 / 3 next to 30-50, powers of two, primes);
 * histories that keep the shape and change the rest (a cache keyed by the shape only), histories whose results the
   caller overwrites between calls (what `Compose` does in place), calls repeated with the very same argument objects;
 * whitening: a different data set per call on one object (same and different shapes, arrays released in between so
   that ids are reused), data / data_rfft, float32 / complex64, Fortran / strided / offset / read-only layouts,
   intensity scale 1e-6..1e3 and offsets, n_bins, interpolation order, stacks with batch_dimension=0; the radial
   averages are compared with an independent computation (numpy fftfreq layout, no fftshift);
 * step wedges with a reconstruction filter and explicit weights, up to 41 tilts; continuous and step wedges mixed in
   one history;
 * CTF with astigmatism, per-call overrides of every numeric parameter, tilt stacks;
 * compositions that reuse their filter objects for a second call with other arguments, the same filter twice,
   full-spectrum compositions, 2-D and larger shapes, the empty composition;
 * the same list of calls evaluated in this process in one order and in a fresh interpreter in the reverse order
   (module-level caches keyed too coarsely);
 * the same suites under a float64 backend (precision selected through backend arguments)."""
import contextlib
import copy
import json
import math
import subprocess

import numpy as np

TOL_G = 1e-12


# ----------------------------------------------------------------------------- encoding of argument values
def enc(v):
    if v is None or isinstance(v, (bool, str)):
        return v
    if isinstance(v, (np.bool_,)):
        return bool(v)
    if isinstance(v, (np.integer, np.floating)):
        return {"np": str(v.dtype), "v": v.item()}
    if isinstance(v, (int, float)):
        return v
    if isinstance(v, tuple):
        return {"t": [enc(x) for x in v]}
    if isinstance(v, list):
        return {"l": [enc(x) for x in v]}
    if isinstance(v, np.ndarray):
        if v.dtype == object:
            return {"a": [enc(x) for x in v.ravel().tolist()], "shape": list(v.shape), "dtype": "object"}
        return {"a": v.ravel().tolist(), "shape": list(v.shape), "dtype": str(v.dtype)}
    raise TypeError(type(v))


def dec(v):
    if isinstance(v, dict):
        if "np" in v:
            return np.dtype(v["np"]).type(v["v"])
        if "t" in v:
            return tuple(dec(x) for x in v["t"])
        if "l" in v:
            return [dec(x) for x in v["l"]]
        if "a" in v:
            if v["dtype"] == "object":
                a = np.empty(len(v["a"]), dtype=object)
                for i, x in enumerate(v["a"]):
                    a[i] = dec(x)
                return a.reshape(v["shape"])
            return np.array(v["a"], dtype=v["dtype"]).reshape(v["shape"])
        if "gen" in v:
            return gen_array(v["gen"])
        return {k: dec(x) for k, x in v.items()}
    if isinstance(v, list):       # a bare JSON list (replay of a hand-written record): a tuple
        return tuple(dec(x) for x in v)
    return v


def dec_kw(d):
    return {k: dec(v) for k, v in d.items()}


def plain(v):
    """the value an argument stands for, in plain python types (what the result may depend on)"""
    if isinstance(v, (np.bool_,)):
        return bool(v)
    if isinstance(v, (bool, str)) or v is None:
        return v
    if isinstance(v, (np.integer,)):
        return int(v)
    if isinstance(v, (np.floating,)):
        return float(v)
    if isinstance(v, (int, float)):
        return v
    if isinstance(v, np.ndarray):
        return tuple(plain(x) for x in v.tolist()) if v.ndim else plain(v.item())
    if isinstance(v, (list, tuple)):
        return tuple(plain(x) for x in v)
    return v


def gen_array(g):
    """a data array described by a small record (seed, shape, scale, offset, dtype, layout, rfft)"""
    rng = np.random.default_rng(int(g["seed"]))
    a = rng.normal(size=tuple(g["shape"])) * float(g.get("scale", 1.0)) + float(g.get("offset", 0.0))
    dt = np.dtype(g.get("dtype", "float64"))
    a = np.round(a).astype(dt) if dt.kind in "iu" else a.astype(dt)
    if g.get("rfft"):
        axes = g.get("axes")
        a = np.fft.rfftn(a, axes=None if axes is None else tuple(axes))
        a = a.astype(g.get("cdtype", "complex128"))
    lay = g.get("layout", "C")
    if lay == "F":
        a = np.asfortranarray(a)
    elif lay == "strided":
        b = np.zeros(tuple(2 * s for s in a.shape), a.dtype)
        v = b[tuple(slice(None, None, 2) for _ in a.shape)]
        v[...] = a
        a = v
    elif lay == "offset":
        b = np.zeros(tuple(s + 3 for s in a.shape), a.dtype)
        v = b[tuple(slice(2, 2 + s) for s in a.shape)]
        v[...] = a
        a = v
    elif lay == "reversed":
        b = np.ascontiguousarray(a[tuple(slice(None, None, -1) for _ in a.shape)])
        a = b[tuple(slice(None, None, -1) for _ in a.shape)]
    elif lay == "readonly":
        a = np.ascontiguousarray(a)
        a.setflags(write=False)
    elif lay == "memmap":
        import os
        import tempfile
        from . import env
        fd, path = tempfile.mkstemp(suffix=".dat", dir=env.scratch())
        os.close(fd)
        mm = np.memmap(path, dtype=a.dtype, mode="w+", shape=a.shape)
        mm[...] = a
        mm.flush()
        a = np.memmap(path, dtype=a.dtype, mode="r", shape=a.shape)
        os.unlink(path)            # the mapping stays valid; nothing is left behind
    return a


def half_shape(shape):
    return tuple(int(x) for x in shape[:-1]) + (int(shape[-1]) // 2 + 1,)


def arr(r):
    return None if isinstance(r, str) else np.asarray(r["data"])


def call(obj, kw):
    try:
        return obj(**kw)
    except Exception as e:  # noqa
        return "raised:" + type(e).__name__ + ":" + str(e)[:80]


def same(a, b, tol=0.0):
    if isinstance(a, str) or isinstance(b, str):
        return isinstance(a, str) and isinstance(b, str) and a.split(":")[1] == b.split(":")[1]
    x, y = np.asarray(a["data"]), np.asarray(b["data"])
    if x.shape != y.shape or x.dtype != y.dtype:
        return False
    if not x.size:
        return True
    x, y = x.astype(np.float64), y.astype(np.float64)
    fx, fy = np.isfinite(x), np.isfinite(y)
    # an undefined estimate (0/0 in an empty radial bin) is the same undefined estimate in both
    return bool(np.array_equal(fx, fy) and np.array_equal(x[~fx], y[~fy], equal_nan=True) and np.all(np.abs(x[fx] - y[fy]) <= tol))


def snap(obj):
    from .props.c12 import snapshot
    return snapshot(obj)


def scribble(r):
    """overwrite a returned mask in place (what Compose does with the masks it multiplies)"""
    if isinstance(r, str):
        return
    d = r["data"]
    try:
        if isinstance(d, np.ndarray) and d.flags.writeable:
            d[...] = np.nan if d.dtype.kind == "f" else 0
    except Exception:  # noqa
        pass


def after_scribble(ctx, inp, make, ekw, out, saved, key):
    """the caller overwrote the mask it got (Compose multiplies in place): the same call must still give the same mask"""
    scribble(out)
    again = call(make(), dec_kw(ekw))
    ok = not isinstance(again, str) and np.asarray(again["data"]).shape == saved.shape and \
        bool(np.array_equal(np.asarray(again["data"]), saved, equal_nan=True))
    ctx.spec("a result overwritten by the caller does not change what the same call returns afterwards", inp, ok, key=key)
    scribble(again)


def copies_agree(ctx, inp, obj, make_fresh, ekw, key):
    """after its history the object, deep-copied or pickled (what template matching does to hand filters to its workers),
    still behaves like a freshly constructed one"""
    import pickle
    ref = call(make_fresh(), dec_kw(ekw))
    for how, clone in (("deepcopy", copy.deepcopy), ("pickle", lambda x: pickle.loads(pickle.dumps(x)))):
        try:
            got = call(clone(obj), dec_kw(ekw))
        except Exception as e:  # noqa
            got = "raised:" + type(e).__name__ + ":" + how
        ctx.spec("a copy of the used object (deepcopy / pickle) gives what a fresh object gives", {**inp, "copy": how}, same(got, ref), key=key)


def big_shape(rng, nd=None):
    """non-cubic / larger / degenerate shapes"""
    nd = int(rng.integers(2, 4)) if nd is None else nd
    special = [2, 3, 4, 5, 7, 8, 9, 13, 16, 17, 21, 25, 29, 31, 32, 33, 37, 40, 48, 49]
    top = 49 if nd == 2 else 25
    k = rng.random()
    if k < 0.35:
        s = [int(rng.choice([x for x in special if x <= top])) for _ in range(nd)]
    elif k < 0.6:        # one tiny extent next to large ones
        s = [int(rng.integers(14, top + 1)) for _ in range(nd)]
        s[int(rng.integers(0, nd))] = int(rng.choice([2, 3]))
    elif k < 0.8:
        s = [int(rng.integers(2, 14)) for _ in range(nd)]
    else:
        s = [int(rng.integers(2, top + 1)) for _ in range(nd)]
    return tuple(s)


def shape_repr(rng, shape, ndarray=True):
    """a shape as tuple / list / ndarray / tuple of numpy integers (ndarray=False: the callee tests `if shape:`)"""
    k = rng.random()
    if not ndarray and 0.7 <= k < 0.85:
        k = 0.9
    if k < 0.55:
        return tuple(int(x) for x in shape)
    if k < 0.7:
        return [int(x) for x in shape]
    if k < 0.85:
        return np.array(shape, dtype=[np.int64, np.int32][int(rng.integers(0, 2))])
    return tuple(np.int64(x) for x in shape)


def seq_repr(rng, vals, allow32=False):
    """a sequence of floats as tuple / list / ndarray"""
    k = rng.random()
    if k < 0.4:
        return tuple(float(x) for x in vals)
    if k < 0.6:
        return [float(x) for x in vals]
    if k < 0.85 or not allow32:
        return np.array(vals, dtype=np.float64)
    return np.array(vals, dtype=np.float32)


# ----------------------------------------------------------------------------- band-pass
BP_DEFAULTS = dict(lowpass=None, highpass=None, sampling_rate=1, use_gaussian=True, return_real_fourier=False,
                   shape_is_real_fourier=False)
BP_KEYS = tuple(BP_DEFAULTS) + ("shape",)


def cut_repr(rng, x):
    """a cut-off as int / float / numpy scalar without changing its value"""
    if x is None:
        return None
    if float(x).is_integer():
        k = rng.random()
        if k < 0.4:
            return int(x)
        if k < 0.5:
            return np.int64(int(x))
    k = rng.random()
    if k < 0.15:
        return np.float64(x)
    if k < 0.3 and float(np.float32(x)) == float(x):
        return np.float32(x)
    return float(x)


def gen_bandpass(rng):
    from .props.c12 import gen_cut
    ncall = int(rng.integers(2, 5))
    same_shape = rng.random() < 0.5
    s0 = big_shape(rng)
    calls = []
    ctor = {}
    for i in range(ncall):
        shape = s0 if same_shape else big_shape(rng, nd=len(s0) if rng.random() < 0.5 else None)
        k = rng.random()
        sr = 1 if k < 0.25 else (float(np.round(rng.uniform(0.5, 4.0), 2)) if k < 0.5 else
                                 seq_repr(rng, [float(np.round(rng.uniform(0.5, 4.0), 1)) for _ in shape]))
        gauss = bool(rng.random() < 0.4)
        lp, hp = gen_cut(rng, shape, plain(sr)), gen_cut(rng, shape, plain(sr))
        if rng.random() < 0.25:        # whole numbers, extreme cut-offs
            lp = float(rng.choice([1, 2, 3, 4, 8, 16, 1000, 1e6]))
        if rng.random() < 0.15:
            hp = float(rng.choice([2, 5, 10, 1e-3, 0.5]))
        if lp is not None and rng.random() < 0.08:
            hp = lp                                   # degenerate band (c, c)
        if gauss and lp is None and hp is None:
            lp = 4.0
        rrf, sirf = bool(rng.random() < 0.5), bool(rng.random() < 0.2)
        final = dict(shape=shape_repr(rng, half_shape(shape) if sirf and rng.random() < 0.8 else shape),
                     lowpass=cut_repr(rng, lp), highpass=cut_repr(rng, hp), sampling_rate=sr,
                     use_gaussian=gauss, return_real_fourier=rrf, shape_is_real_fourier=sirf)
        if i == 0:
            for key in list(final):
                if key != "shape" and rng.random() < 0.5:
                    ctor[key] = final[key]
        kw = {}
        base = {**BP_DEFAULTS, **ctor}
        for key, v in final.items():
            if key == "shape" or key not in ctor or plain(base[key]) != plain(v) or type(base[key]) is not type(v) or rng.random() < 0.2:
                kw[key] = v
        if rng.random() < 0.3:        # what Compose / template matching hand to every filter
            kw["batch_dimension"] = None
            kw["weight_type"] = None
            if rng.random() < 0.5:
                kw["data_rfft"] = {"gen": {"seed": int(rng.integers(1 << 30)), "shape": [3, 4], "rfft": True, "cdtype": "complex64"}}
        calls.append({k: (v if isinstance(v, dict) and "gen" in v else enc(v)) for k, v in kw.items()})
    return {"kind": "wide-bandpass", "ctor": {k: enc(v) for k, v in ctor.items()}, "calls": calls,
            "scribble": bool(rng.random() < 0.5), "repeat": bool(rng.random() < 0.4)}


def run_bandpass(ctx, case):
    from tme.preprocessing.frequency_filters import BandPassFilter
    from .props import c12
    ctor = dec_kw(case["ctor"])
    obj = BandPassFilter(**ctor)
    before = snap(obj)
    reqs = []
    for i, ekw in enumerate(case["calls"]):
        inp = {**case, "call_index": i}
        kw = dec_kw(ekw)
        kw0 = copy.deepcopy(kw)
        out = call(obj, kw)
        fresh = call(BandPassFilter(**dec_kw(case["ctor"])), dec_kw(ekw))
        ctx.spec("result independent of earlier calls (same object vs fresh object)", inp, same(out, fresh),
                 {"reused": getattr(arr(out), "shape", out), "fresh": getattr(arr(fresh), "shape", fresh)}, key="BandPassFilter:stateful")
        ctx.spec("__call__ leaves the object's attributes unchanged", inp, snap(obj) == before, key="BandPassFilter:attributes-mutated")
        ctx.spec("a call does not modify its arguments", inp, all(c12.canon(kw[k]) == c12.canon(kw0[k]) for k in kw0),
                 key="BandPassFilter:arguments-mutated")
        if isinstance(out, str):
            ctx.spec("filter call succeeds", inp, False, out, key="BandPassFilter:raised")
            continue
        if case.get("repeat"):
            again = call(obj, kw)       # the very same argument objects
            ctx.spec("repeating a call with the same argument objects gives the same result", inp, same(again, fresh), key="BandPassFilter:stateful")
        want = {k: plain(v) for k, v in {**BP_DEFAULTS, **ctor, **kw}.items() if k in BP_KEYS}
        want["use_gaussian"] = bool(want["use_gaussian"])
        o = np.array(out["data"], copy=True)
        c12.bp_spec(ctx, want, o, inp)
        shape = tuple(want["shape"])
        if max(shape) <= 16 and int(np.prod(shape)) <= 1500:
            reqs.append((inp, want, o, ("c12.bandpass", c12.bp_model_args(want))))
        ctx.count("wide:bandpass:" + ("gauss" if want["use_gaussian"] else "hard") + ":max-extent" + (">16" if max(shape) > 16 else "<=16"))
        ctx.count("wide:bandpass:shape-as-" + type(kw["shape"]).__name__)
        if max(shape) > 2:
            ctx.distinct(("wide-bandpass", shape, c12.canon_kw({k: v for k, v in want.items() if k != "shape"})))
        if case.get("scribble"):
            scribble(fresh)
            after_scribble(ctx, inp, lambda: obj, ekw, out, o, "BandPassFilter:stateful")
    copies_agree(ctx, {**case, "call_index": len(case["calls"]) - 1}, obj, lambda: BandPassFilter(**dec_kw(case["ctor"])), case["calls"][-1], "BandPassFilter:stateful")
    for (inp, want, o, _), m in zip(reqs, ctx.driver.batch([r for *_, r in reqs])):
        tol = TOL_G if want["use_gaussian"] else 0.0
        if isinstance(m, str):
            ctx.agree("BandPassFilter mask", inp, "array", m)
            continue
        md = c12.unfl(m["data"], m["shape"])
        ctx.agree("BandPassFilter mask", inp, {"shape": list(o.shape), "equal": True},
                  {"shape": m["shape"], "equal": bool(md.shape == o.shape and np.all(np.abs(md - o) <= tol))})


# ----------------------------------------------------------------------------- whitening
def radial_half(shape):
    """radius (Nyquist = 1 per axis) of every voxel of a half-spectrum array in numpy's rfftn layout"""
    lead, h = shape[:-1], shape[-1]
    axes = [np.abs(np.fft.fftfreq(n) * n) / (n // 2) for n in lead] + [np.arange(h) / (h - 1)]
    g = np.meshgrid(*axes, indexing="ij")
    return np.sqrt(sum(x * x for x in g))


def spectrum_ref(rf, n_bins, batch):
    """independent radial whitening profile 1/sqrt(<|F|^2>) / max: returns (profile | None when a voxel sits on a bin edge)"""
    rf = np.asarray(rf).astype(np.complex128)
    p = rf.real ** 2 + rf.imag ** 2
    if batch is not None:
        p = p.mean(axis=batch)
    shape = p.shape
    max_bins = max(max(shape[:-1]) // 2 + 1, shape[-1])
    nb = max_bins if n_bins is None else int(min(n_bins, max_bins))
    t = radial_half(shape) * (nb - 1) + 0.5
    if np.any(np.abs(t - np.round(t)) < 1e-9):
        return None
    bins = np.floor(t).astype(int)
    with np.errstate(all="ignore"):
        prof = np.array([p[bins == k].mean() if np.any(bins == k) else np.nan for k in range(nb)])
        prof = 1.0 / np.sqrt(prof)
        prof = prof / prof.max()
    return prof


_WAXES = {}


def shift_axes_agree(ctx, inp, lw, spec_, o, nd, batch):
    """which axes of the (centred) interpolated mask the real call un-shifted, measured on its output, against the
    model's `whitenShiftAxes` (Props: whitenShiftAxes_mem)"""
    import itertools
    k = (nd, batch)
    if k not in _WAXES:
        _WAXES[k] = ctx.driver.call("c12.whitenaxes", nd=int(nd), batch=None if batch is None else int(batch))
    m = _WAXES[k]
    centred = np.asarray(lw._interpolate_spectrum(spectrum=spec_, shape=tuple(o.shape), shape_is_real_fourier=True))
    if centred.shape != o.shape:
        return
    fits = [list(ax) for r in range(o.ndim + 1) for ax in itertools.combinations(range(o.ndim), r)
            if np.array_equal(np.fft.ifftshift(centred, axes=ax), o)]
    if len(fits) > 1 and any(len(set(a) ^ set(b)) == 1 for a, b in itertools.combinations(fits, 2)) and m["axes"] in fits:
        ctx.count("wide:whitening:shift-axes-ambiguous")      # an axis whose shift is invisible on this mask
        return
    ctx.agree("axes un-shifted at the end of LinearWhiteningFilter.__call__", inp, {"rank": o.ndim, "fits": m["axes"] in fits},
              {"rank": m["rank"], "fits": True})


def gen_whitening(rng):
    nd = int(rng.integers(2, 4))
    ncall = int(rng.integers(2, 5))
    base = tuple(int(x) for x in rng.integers(4, 14 if nd == 2 else 10, size=nd))
    calls = []
    for i in range(ncall):
        shape = base if rng.random() < 0.6 else tuple(int(x) for x in rng.integers(4, 14 if nd == 2 else 10, size=nd))
        scale = float(rng.choice([1e-6, 1e-3, 1.0, 1.0, 37.0, 1e3]))
        g = {"seed": int(rng.integers(1 << 30)), "shape": list(shape), "scale": scale,
             "offset": float(rng.choice([0.0, 0.0, 5.0, 100.0])) * scale,
             "layout": str(rng.choice(["C", "C", "F", "strided", "offset", "reversed", "readonly", "memmap"]))}
        batch = None
        c = {}
        if rng.random() < 0.2:
            g["shape"] = [int(rng.integers(2, 5))] + list(shape)
            g["axes"] = list(range(1, nd + 1))
            batch = 0
        if batch is None and rng.random() < 0.3:
            k = rng.random()
            if k < 0.4:
                g["dtype"] = "float32"
            elif k < 0.6 and scale >= 1.0:          # tomograms are often stored as 16-bit integers
                g["dtype"] = "int16"
                g["scale"], g["offset"] = scale * 20, g["offset"] * 20
            c["data"] = {"gen": g}
        else:
            g["rfft"] = True
            if rng.random() < 0.4:
                g["cdtype"] = "complex64"
            c["data_rfft"] = {"gen": g}
        if batch is not None:
            c["batch_dimension"] = batch
        elif rng.random() < 0.3:
            c["batch_dimension"] = None
        k = rng.random()
        if k < 0.35:
            c["n_bins"] = int(rng.integers(2, 9))
        elif k < 0.45:
            c["n_bins"] = 1000
        elif k < 0.55:
            c["n_bins"] = None
        k = rng.random()
        if k < 0.15:
            c["order"] = None
        elif k < 0.4:
            c["order"] = int(rng.choice([0, 1, 2, 3]))
        k = rng.random()
        if k < 0.75:
            tgt = shape if rng.random() < 0.5 else tuple(int(x) for x in rng.integers(3, 16 if nd == 2 else 11, size=nd))
            if rng.random() < 0.25:
                c["shape"] = enc(shape_repr(rng, half_shape(tgt), ndarray=False))
                c["shape_is_real_fourier"] = True
            else:
                c["shape"] = enc(shape_repr(rng, tgt, ndarray=False))
                if rng.random() < 0.5:
                    c["shape_is_real_fourier"] = False
            if rng.random() < 0.6:
                c["return_real_fourier"] = True
        calls.append(c)
    return {"kind": "wide-whitening", "calls": calls, "scribble": bool(rng.random() < 0.5)}


def run_whitening(ctx, case):
    from tme.preprocessing.frequency_filters import LinearWhiteningFilter
    from .props import c12
    lw = LinearWhiteningFilter()
    before = snap(lw)
    reqs = []
    for i, ekw in enumerate(case["calls"]):
        inp = {**case, "call_index": i}
        kw = dec_kw(ekw)
        src = kw.get("data_rfft") if "data_rfft" in kw else kw["data"]
        src0 = np.array(src, copy=True)
        kw0 = {k: copy.deepcopy(v) for k, v in kw.items() if k not in ("data", "data_rfft")}
        out = call(lw, kw)
        fresh = call(LinearWhiteningFilter(), dec_kw(ekw))
        ctx.spec("result independent of earlier calls (same object vs fresh object)", inp, same(out, fresh), key="LinearWhiteningFilter:stateful")
        ctx.spec("__call__ leaves the object's attributes unchanged", inp, snap(lw) == before, key="LinearWhiteningFilter:attributes-mutated")
        ctx.spec("a call does not modify its arguments", inp, np.array_equal(src0, src) and all(c12.canon(kw[k]) == c12.canon(kw0[k]) for k in kw0),
                 key="LinearWhiteningFilter:arguments-mutated")
        if isinstance(out, str):
            ctx.spec("filter call succeeds", inp, False, out, key="LinearWhiteningFilter:raised")
            continue
        o = np.array(out["data"], copy=True)
        batch = kw.get("batch_dimension")
        rf = np.asarray(src) if "data_rfft" in kw else np.fft.rfftn(np.asarray(src, dtype=np.float64))
        data_half = tuple(x for j, x in enumerate(rf.shape) if j != batch)
        order_none = "order" in kw and kw["order"] is None
        sirf = bool(kw.get("shape_is_real_fourier", False))
        if order_none or "shape" not in kw:
            want = data_half
        else:
            want = tuple(plain(kw["shape"])) if sirf else half_shape(plain(kw["shape"]))
        ok_shape = tuple(o.shape) == tuple(want)
        ctx.spec("shape: half spectrum of the requested shape", inp, ok_shape, {"got": o.shape, "want": want}, key="LinearWhiteningFilter:shape")
        ctx.count("wide:whitening:" + ("batch" if batch is not None else "single") + ":" + ("data" if "data" in kw else str(rf.dtype)))
        if not ok_shape:
            continue
        if not np.all(np.isfinite(o)):
            # an empty radial bin (0/0) or a bin without power: the estimate itself is undefined for this data
            ctx.count("wide:whitening:nonfinite-skipped")
            continue
        ctx.spec("real and within [0,1]", inp, o.dtype.kind == "f" and float(o.min()) >= 0 and float(o.max()) <= 1 + 1e-12,
                 {"min": float(o.min()), "max": float(o.max())}, key="LinearWhiteningFilter:range")
        bad = c12.asym_positions(ctx, o, 1e-12, axes=range(o.ndim - 1))
        ctx.spec("symmetric under frequency negation", inp, len(bad) == 0, {"asymmetric": bad[:5].tolist()}, key="LinearWhiteningFilter:symmetry")
        ctx.distinct(("wide-whiten", tuple(rf.shape), tuple(want), str(kw.get("n_bins")), str(kw.get("order", 1)), batch))
        if order_none:
            if case.get("scribble"):
                after_scribble(ctx, inp, lambda: lw, ekw, out, o, "LinearWhiteningFilter:stateful")
            continue
        prof = spectrum_ref(rf, kw.get("n_bins"), batch)
        if prof is None or not np.all(np.isfinite(prof)):
            ctx.count("wide:whitening:bin-edge-skipped")
        else:
            tol = 1e-9 if rf.dtype == np.complex128 else 1e-5
            real_shape = tuple(want) if (sirf or "shape" not in kw) else tuple(plain(kw["shape"]))
            ref = c12.radial_profile_layout(prof, real_shape, sirf or "shape" not in kw)
            ctx.spec("whitening mask = 1/sqrt(radial mean power)/max of THIS call's data, laid out like rfftn", inp,
                     ref.shape == o.shape and bool(np.all(np.abs(ref - o) <= tol)),
                     {"maxdiff": float(np.abs(ref - o).max()) if ref.shape == o.shape else None}, key="LinearWhiteningFilter:layout")
            ctx.count("wide:whitening:profile-checked")
        # model: interpolation stage, given the radial averages of the real code
        _, spec_ = lw._compute_spectrum(rf, kw.get("n_bins"), batch)
        if np.all(np.isfinite(spec_)):
            shift_axes_agree(ctx, inp, lw, spec_, o, rf.ndim, batch)
        if np.all(np.isfinite(spec_)) and int(np.prod(want)) <= 1500:
            rs = tuple(want) if (sirf or "shape" not in kw) else tuple(plain(kw["shape"]))
            reqs.append((inp, o, ("c12.whiten", dict(shape=[int(x) for x in rs], spectrum=[c12.fr(x) for x in spec_],
                                                   sirf=bool(sirf or "shape" not in kw)))))
        if case.get("scribble"):
            scribble(fresh)
            after_scribble(ctx, inp, lambda: lw, ekw, out, o, "LinearWhiteningFilter:stateful")
        del out, fresh, src, rf, kw
    copies_agree(ctx, {**case, "call_index": len(case["calls"]) - 1}, lw, LinearWhiteningFilter, case["calls"][-1], "LinearWhiteningFilter:stateful")
    for (inp, o, _), m in zip(reqs, ctx.driver.batch([r for *_, r in reqs])):
        md = c12.unfl(m["data"], m["shape"]) if not isinstance(m, str) else None
        ctx.agree("LinearWhiteningFilter mask given the radial averages", inp, {"shape": list(o.shape), "equal": True},
                  m if md is None else {"shape": m["shape"], "equal": bool(md.shape == o.shape and np.all(np.abs(md - o) <= 1e-9))})


# ----------------------------------------------------------------------------- reconstructed wedge
WR_DEFAULTS = dict(angles=None, opening_axis=0, tilt_axis=2, weights=None, weight_wedge=False, create_continuous_wedge=False,
                   frequency_cutoff=0.5, reconstruction_filter=None)
REC_FILTERS = [None, None, "ram-lak", "ramp", "shepp-logan", "cosine", "hamming", "Ram-Lak", "HAMMING", "Cosine"]   # names are case-insensitive


def gen_wedge(rng):
    ncall = int(rng.integers(2, 5))
    nd = int(rng.integers(2, 4))
    same_shape = rng.random() < 0.5

    def shp():
        top = 40 if nd == 2 else (25 if rng.random() < 0.15 else 15)      # 24^3 > 10 000 voxels
        return tuple(int(x) for x in rng.integers(3, top, size=nd))
    s0 = shp()
    calls, ctor = [], {}
    for i in range(ncall):
        shape = s0 if same_shape else shp()
        oa, ta = (int(x) for x in rng.permutation(nd)[:2])
        cont = bool(rng.random() < 0.5)
        if cont:
            a = (float(rng.integers(0, 91)), float(rng.integers(0, 91)))
            if rng.random() < 0.4:
                a = (a[0], a[0])
            angles = seq_repr(rng, a, allow32=True)
            fc = [0.5, 0.5, None, float(np.round(rng.uniform(0.1, 0.5), 2)), float(np.round(rng.uniform(0.5, 0.9), 2))][int(rng.integers(0, 5))]
        else:
            n = int(rng.choice([1, 2, 3, 5, 7, 13, 41]))
            if rng.random() < 0.5:
                vals = np.linspace(-float(rng.integers(30, 71)), float(rng.integers(30, 71)), n) if n > 1 else [float(rng.integers(-60, 61))]
            else:
                vals = np.sort(rng.uniform(-70, 70, size=n)).round(1)
            angles = seq_repr(rng, [float(x) for x in vals], allow32=True)
            fc = [0.5, None, 0.4][int(rng.integers(0, 3))]
        final = dict(angles=angles, opening_axis=oa, tilt_axis=ta, create_continuous_wedge=cont, frequency_cutoff=fc,
                     weight_wedge=bool(rng.random() < (0.2 if cont else 0.5)))
        if not cont:
            final["reconstruction_filter"] = REC_FILTERS[int(rng.integers(0, len(REC_FILTERS)))]
            if n < 2 and str(final["reconstruction_filter"]).lower() == "ramp":      # 'ramp' is defined by the smallest tilt increment
                final["reconstruction_filter"] = "ram-lak"
            if rng.random() < 0.3:
                final["weights"] = seq_repr(rng, rng.uniform(0.2, 1.0, size=len(plain(angles))).round(2), allow32=True)
        else:
            final["reconstruction_filter"] = None
        if i == 0:
            for key in list(final):
                if rng.random() < 0.7:
                    ctor[key] = final[key]
        base = {**WR_DEFAULTS, **ctor}
        kw = {"shape": shape_repr(rng, shape)}
        if rng.random() < 0.7:
            kw["return_real_fourier"] = bool(rng.random() < 0.5)
        for key, v in final.items():
            if key not in ctor or plain(base[key]) != plain(v) or type(base[key]) is not type(v) or rng.random() < 0.15:
                kw[key] = v
        if "weights" not in final and base.get("weights") is not None:
            kw["weights"] = None
        calls.append({k: enc(v) for k, v in kw.items()})
    return {"kind": "wide-wedge", "ctor": {k: enc(v) for k, v in ctor.items()}, "calls": calls,
            "scribble": bool(rng.random() < 0.5), "repeat": bool(rng.random() < 0.4)}


def run_wedge(ctx, case):
    from tme.preprocessing.tilt_series import WedgeReconstructed
    from .props import c12
    ctor = dec_kw(case["ctor"])
    obj = WedgeReconstructed(**ctor)
    before = snap(obj)
    reqs = []
    for i, ekw in enumerate(case["calls"]):
        inp = {**case, "call_index": i}
        kw = dec_kw(ekw)
        kw0 = copy.deepcopy(kw)
        out = call(obj, kw)
        fresh = call(WedgeReconstructed(**dec_kw(case["ctor"])), dec_kw(ekw))
        ctx.spec("result independent of earlier calls (same object vs fresh object)", inp, same(out, fresh), key="WedgeReconstructed:stateful")
        ctx.spec("__call__ leaves the object's attributes unchanged", inp, snap(obj) == before, key="WedgeReconstructed:attributes-mutated")
        ctx.spec("a call does not modify its arguments", inp, all(c12.canon(kw[k]) == c12.canon(kw0[k]) for k in kw0),
                 key="WedgeReconstructed:arguments-mutated")
        if isinstance(out, str):
            ctx.spec("filter call succeeds", inp, False, out, key="WedgeReconstructed:raised")
            continue
        if case.get("repeat"):
            ctx.spec("repeating a call with the same argument objects gives the same result", inp, same(call(obj, kw), fresh), key="WedgeReconstructed:stateful")
        want = {"return_real_fourier": False, **WR_DEFAULTS, **ctor, **kw}
        shape = tuple(plain(want["shape"]))
        rrf = bool(want["return_real_fourier"])
        o = np.array(out["data"], copy=True)
        ws = half_shape(shape) if rrf else shape
        ok_shape = tuple(o.shape) == ws
        ctx.spec("shape: full or half spectrum as asked", inp, ok_shape, {"got": o.shape, "want": ws}, key="WedgeReconstructed:shape")
        if not ok_shape:
            continue
        other = call(WedgeReconstructed(**dec_kw(case["ctor"])), {**dec_kw(ekw), "return_real_fourier": not rrf})
        if isinstance(other, str):
            ctx.spec("filter call succeeds", inp, False, other, key="WedgeReconstructed:raised")
            continue
        other = np.asarray(other["data"])
        full, half = (other, o) if rrf else (o, other)
        ctx.spec("half spectrum = part of the full one", inp,
                 full.shape == shape and half.shape == half_shape(shape) and np.array_equal(full[..., : shape[-1] // 2 + 1], half),
                 key="WedgeReconstructed:half-of-full")
        cont, ww = bool(want["create_continuous_wedge"]), bool(want["weight_wedge"])
        hi = 1.0 + (1e-6 if (ww and not cont) else 0.0)
        okr = o.dtype.kind == "f" and bool(np.all(np.isfinite(o))) and float(o.min()) >= 0 and float(o.max()) <= hi
        if okr and not ww:
            okr = bool(np.all((o == 0) | (o == 1)))
        ctx.spec("real and within [0,1] (unweighted: {0,1})", inp, okr, {"min": float(o.min()), "max": float(o.max())}, key="WedgeReconstructed:range")
        kind = "continuous" if cont else "step"
        ctx.count(f"wide:wedge:{kind}:" + ("filter=" + str(want.get("reconstruction_filter")) if not cont else "angles-as-" + type(want["angles"]).__name__))
        ctx.distinct(("wide-wedge", kind, shape, c12.canon_kw({k: plain(v) for k, v in want.items() if k != "shape"})))
        if cont:
            eff = {**want, "angles": plain(want["angles"])}
            key, bad = c12.wedge_known_key(ctx, full, eff)
            c12.spec_capped(ctx, "symmetric under frequency negation", inp, key is None, {"asymmetric": bad[:6].tolist(), "count": len(bad)},
                            key=key or "WedgeReconstructed:symmetry")
            if max(shape) <= 13:
                a = want["angles"]        # the element type matters: the code computes the limits in that precision
                reqs.append((inp, o, ("c12.wedge", dict(
                    shape=list(shape), start=c12.fr(np.tan(np.radians(90 - a[0]))), stop=c12.fr(np.tan(np.radians(-1 * (90 - a[1])))),
                    big=c12.fr(np.tan(np.radians(90)) + 1), opening=int(want["opening_axis"]), tilt=int(want["tilt_axis"]),
                    cutoff=c12.fr(want["frequency_cutoff"]), rrf=rrf))))
        if case.get("scribble"):
            scribble(fresh)
            after_scribble(ctx, inp, lambda: obj, ekw, out, o, "WedgeReconstructed:stateful")
    copies_agree(ctx, {**case, "call_index": len(case["calls"]) - 1}, obj, lambda: WedgeReconstructed(**dec_kw(case["ctor"])), case["calls"][-1],
                 "WedgeReconstructed:stateful")
    for (inp, o, _), m in zip(reqs, ctx.driver.batch([r for *_, r in reqs])):
        md = c12.unfl(m["data"], m["shape"]) if not isinstance(m, str) else None
        ctx.agree("continuous wedge mask", inp, {"shape": list(o.shape), "equal": True},
                  m if md is None else {"shape": m["shape"], "equal": bool(md.shape == o.shape and np.array_equal(md, o.astype(np.float64)))})


# ----------------------------------------------------------------------------- tilt-stack wedge
def gen_tiltwedge(rng):
    shape = tuple(int(x) for x in rng.integers(3, 14, size=3))
    oa, ta = (int(x) for x in rng.permutation(3)[:2])
    n = int(rng.choice([1, 2, 3, 5, 9]))
    angles = seq_repr(rng, np.sort(rng.uniform(-60, 60, size=n)).round(1), allow32=True)
    weights = seq_repr(rng, rng.uniform(0.5, 3, size=n).round(2), allow32=True)
    ctor_shape = rng.random() < 0.3            # the shape may also be a constructor argument
    ctor = dict(shape=shape if ctor_shape else None, tilt_axis=ta, opening_axis=oa, angles=angles, weights=weights,
                weight_type=[None, "angle", "relion"][int(rng.integers(0, 3))],
                frequency_cutoff=[0.5, 0.5, None, 0.3][int(rng.integers(0, 4))])
    calls = []
    for _ in range(int(rng.integers(2, 6))):
        c = dict(shape=shape_repr(rng, shape if rng.random() < 0.6 else tuple(int(x) for x in rng.integers(3, 14, size=3))),
                 weight_type=[None, "angle", "relion", "grigorieff"][int(rng.integers(0, 4))])
        if ctor_shape and rng.random() < 0.5:
            del c["shape"]
        k = rng.random()
        if k < 0.2:
            c["weights"] = seq_repr(rng, rng.uniform(0.5, 3, size=n).round(2), allow32=True)
        elif k < 0.35:
            c["frequency_cutoff"] = [None, 0.25, 0.5][int(rng.integers(0, 3))]
        if rng.random() < 0.3:
            c["return_real_fourier"] = True
            c["batch_dimension"] = None
        calls.append({k: enc(v) for k, v in c.items()})
    return {"kind": "wide-tiltwedge", "ctor": {k: enc(v) for k, v in ctor.items()}, "calls": calls, "scribble": bool(rng.random() < 0.5)}


def run_tiltwedge(ctx, case):
    from tme.preprocessing.tilt_series import Wedge
    ctor = dec_kw(case["ctor"])
    w = Wedge(**ctor)
    before = snap(w)
    n = len(plain(ctor["angles"]))
    for i, ekw in enumerate(case["calls"]):
        inp = {**case, "call_index": i}
        kw = dec_kw(ekw)
        out = call(w, kw)
        fresh = call(Wedge(**dec_kw(case["ctor"])), dec_kw(ekw))
        ctx.spec("result independent of earlier calls (same object vs fresh object)", inp, same(out, fresh), key="Wedge:stateful")
        ctx.spec("__call__ leaves the object's attributes unchanged", inp, snap(w) == before, key="Wedge:attributes-mutated")
        if isinstance(out, str):
            ctx.spec("filter call succeeds", inp, False, out, key="Wedge:raised")
            continue
        o = np.array(out["data"], copy=True)
        s = tuple(plain(kw["shape"] if "shape" in kw else ctor["shape"]))
        want = (n,) + tuple(x for j, x in enumerate(s) if j != ctor["opening_axis"])
        ctx.spec("tilt stack shape", inp, tuple(o.shape) == want, {"got": o.shape, "want": want}, key="Wedge:shape")
        wts = plain(kw["weights"]) if "weights" in kw else plain(ctor["weights"])
        top = float(max(wts)) if kw["weight_type"] is None else 1.0
        ctx.spec("real, non-negative, bounded by the weights", inp,
                 o.dtype.kind == "f" and bool(np.all(np.isfinite(o))) and o.min() >= 0 and o.max() <= top * (1 + 1e-6), key="Wedge:range")
        ctx.count("wide:tiltwedge:" + str(kw["weight_type"]))
        ctx.distinct(("wide-tiltwedge", s, n, str(kw["weight_type"]), ctor["opening_axis"], ctor["tilt_axis"]))
        if case.get("scribble"):
            scribble(fresh)
            after_scribble(ctx, inp, lambda: w, ekw, out, o, "Wedge:stateful")
    copies_agree(ctx, {**case, "call_index": len(case["calls"]) - 1}, w, lambda: Wedge(**dec_kw(case["ctor"])), case["calls"][-1], "Wedge:stateful")


# ----------------------------------------------------------------------------- CTF
def gen_ctf(rng):
    multi = rng.random() < 0.3
    nd = 3 if multi else int(rng.integers(2, 4))
    n = int(rng.integers(2, 5)) if multi else 1

    def shp():
        return tuple(int(x) for x in rng.integers(3, 13 if nd == 3 else 20, size=nd))

    def defoci():
        return seq_repr(rng, rng.uniform(500, 30000, size=n).round(1))
    ctor = dict(shape=None, defocus_x=defoci(), sampling_rate=float(np.round(rng.uniform(1, 6), 2)),
                phase_shift=seq_repr(rng, rng.choice([0.0, 0.3, 1.2], size=n)), flip_phase=bool(rng.random() < 0.5),
                amplitude_contrast=float(rng.choice([0.07, 0.1])))
    if rng.random() < 0.5:
        ctor["acceleration_voltage"] = float(rng.choice([120e3, 200e3]))
    if rng.random() < 0.5:
        ctor["spherical_aberration"] = float(rng.choice([1.0e7, 2.0e7]))
    if multi:
        oa, ta = (int(x) for x in rng.permutation(3)[:2])
        ctor.update(angles=seq_repr(rng, np.sort(rng.uniform(-60, 60, size=n)).round(1)), opening_axis=oa, tilt_axis=ta,
                    defocus_y=np.array([None] * n, dtype=object))
        if (oa, ta) in ((0, 2), (2, 0), (0, 1), (1, 0)) and rng.random() < 0.3:
            ctor["correct_defocus_gradient"] = True
    else:
        ctor.update(angles=[0], return_real_fourier=bool(rng.random() < 0.5))
        if rng.random() < 0.5:
            ctor.update(defocus_y=defoci(), defocus_angle=float(rng.integers(0, 180)))
    calls = []
    s0 = shp()
    if rng.random() < 0.3:
        ctor["shape"] = s0
    for _ in range(int(rng.integers(2, 6))):
        c = {"shape": shape_repr(rng, s0 if rng.random() < 0.5 else shp())}
        if ctor["shape"] is not None and rng.random() < 0.5:
            del c["shape"]
        for key, gen in (("sampling_rate", lambda: float(np.round(rng.uniform(1, 6), 2))),
                         ("defocus_x", defoci),
                         ("amplitude_contrast", lambda: float(rng.choice([0.05, 0.2]))),
                         ("phase_shift", lambda: seq_repr(rng, rng.choice([0.0, 0.5], size=n))),
                         ("acceleration_voltage", lambda: float(rng.choice([200e3, 300e3]))),
                         ("spherical_aberration", lambda: float(rng.choice([2.7e7, 1.0e7]))),
                         ("flip_phase", lambda: bool(rng.random() < 0.5))):
            if rng.random() < 0.2:
                c[key] = gen()
        if not multi and rng.random() < 0.4:
            c["return_real_fourier"] = bool(rng.random() < 0.5)
        if not multi and rng.random() < 0.15:
            c["sampling_rate"] = (c.get("sampling_rate", 2.0), 1.5) + ((2.5,) if nd == 3 else ())
        calls.append({k: enc(v) for k, v in c.items()})
    return {"kind": "wide-ctf", "ctor": {k: enc(v) for k, v in ctor.items()}, "calls": calls, "scribble": bool(rng.random() < 0.5)}


def run_ctf(ctx, case):
    from tme.preprocessing.tilt_series import CTF
    from .props import c12
    ctor = dec_kw(case["ctor"])
    c = CTF(**ctor)
    before = snap(c)
    n = len(plain(ctor["angles"]))
    for i, ekw in enumerate(case["calls"]):
        inp = {**case, "call_index": i}
        kw = dec_kw(ekw)
        kw0 = copy.deepcopy(kw)
        out = call(c, kw)
        fresh = call(CTF(**dec_kw(case["ctor"])), dec_kw(ekw))
        ctx.spec("result independent of earlier calls (same object vs fresh object)", inp, same(out, fresh), key="CTF:stateful")
        ctx.spec("__call__ leaves the object's attributes unchanged", inp, snap(c) == before, key="CTF:attributes-mutated")
        ctx.spec("a call does not modify its arguments", inp, all(c12.canon(kw[k]) == c12.canon(kw0[k]) for k in kw0), key="CTF:arguments-mutated")
        if isinstance(out, str):
            ctx.spec("filter call succeeds", inp, False, out, key="CTF:raised")
            continue
        want = {"return_real_fourier": False, "flip_phase": True, **ctor, **kw}
        o = np.array(out["data"], copy=True)
        s = tuple(plain(want["shape"]))
        if n == 1 and want.get("opening_axis") is None:
            ws = half_shape(s) if want["return_real_fourier"] else s
        else:
            ws = (n,) + tuple(x for j, x in enumerate(s) if j != want["opening_axis"])
        ok_shape = tuple(o.shape) == ws
        ctx.spec("shape: full or half spectrum as asked", inp, ok_shape, {"got": o.shape, "want": ws}, key="CTF:shape")
        if not ok_shape:
            continue
        if n == 1:
            other = call(CTF(**dec_kw(case["ctor"])), {**dec_kw(ekw), "return_real_fourier": not want["return_real_fourier"]})
            if not isinstance(other, str):
                other = np.asarray(other["data"])
                full, half = (other, o) if want["return_real_fourier"] else (o, other)
                ctx.spec("half spectrum = part of the full one", inp, full.shape == s and np.array_equal(full[..., : s[-1] // 2 + 1], half),
                         key="CTF:half-of-full")
        lo = 0.0 if want["flip_phase"] else -1.0
        ctx.spec("real and within the documented range", inp,
                 o.dtype.kind == "f" and bool(np.all(np.isfinite(o))) and o.min() >= lo - 1e-6 and o.max() <= 1 + 1e-6,
                 {"min": float(o.min()), "max": float(o.max())}, key="CTF:range")
        ctx.count("wide:ctf:" + ("stack" if n > 1 else "single") + (":astigmatic" if n == 1 and want.get("defocus_y") is not None else "")
                  + (":gradient" if want.get("correct_defocus_gradient") else ""))
        ctx.distinct(("wide-ctf", s, c12.canon_kw({k: plain(v) if not (isinstance(v, np.ndarray) and v.dtype == object) else "none" for k, v in want.items() if k != "shape"})))
        if case.get("scribble"):
            scribble(fresh)
            after_scribble(ctx, inp, lambda: c, ekw, out, o, "CTF:stateful")
    copies_agree(ctx, {**case, "call_index": len(case["calls"]) - 1}, c, lambda: CTF(**dec_kw(case["ctor"])), case["calls"][-1], "CTF:stateful")


# ----------------------------------------------------------------------------- compositions
def part_specs(rng, nd):
    oa, ta = (int(x) for x in rng.permutation(nd)[:2])
    sr = float(rng.choice([1.0, 1.5, 2.0, 3.3]))
    a = float(rng.integers(20, 70))
    steps = [float(x) for x in np.sort(rng.uniform(-60, 60, size=int(rng.integers(2, 8)))).round(0)]
    return {
        "bp": ["BandPassFilter", dict(lowpass=float(np.round(rng.uniform(2, 8), 2)), highpass=float(np.round(rng.uniform(10, 40), 1)) if rng.random() < 0.5 else None,
                                     sampling_rate=sr, use_gaussian=False)],
        "bg": ["BandPassFilter", dict(lowpass=float(np.round(rng.uniform(2, 8), 2)), highpass=None, sampling_rate=sr, use_gaussian=True)],
        "lw": ["LinearWhiteningFilter", {}],
        "wc": ["WedgeReconstructed", dict(angles={"t": [a, a]}, opening_axis=oa, tilt_axis=ta, create_continuous_wedge=True)],
        "ws": ["WedgeReconstructed", dict(angles={"t": steps}, opening_axis=oa, tilt_axis=ta, create_continuous_wedge=False, weight_wedge=True)],
        "ctf": ["CTF", dict(shape=None, defocus_x={"l": [float(np.round(rng.uniform(1000, 9000)))]}, angles={"l": [0]}, return_real_fourier=True,
                            sampling_rate=sr, phase_shift={"l": [0]})],
    }


def gen_compose(rng):
    nd = int(rng.integers(2, 4))
    specs = part_specs(rng, nd)
    full = bool(rng.random() < 0.3)          # full-spectrum composition: no whitening (it only has a half spectrum)
    pool = ["bp", "bg"] + ([] if full else ["lw"]) + [str(rng.choice(["wc", "ws", "ctf"]))]
    k = int(rng.integers(1, len(pool) + 1))
    combo = [str(x) for x in rng.permutation(pool)[:k]]
    if rng.random() < 0.3:                  # the same filter object twice
        dup = str(rng.choice([c for c in combo if c in ("bp", "bg", "lw")] or ["bp"]))
        if dup not in combo:
            combo.append(dup)
        combo.insert(int(rng.integers(0, len(combo) + 1)), dup)
    if full:
        specs["ctf"][1]["return_real_fourier"] = False
    names = sorted(set(combo))
    if len(combo) >= 2 and rng.random() < 0.25:       # a composition as a part of a composition
        i = int(rng.integers(0, len(combo) - 1))
        j = int(rng.integers(i + 1, len(combo) + 1))
        combo = combo[:i] + [combo[i:j]] + combo[j:]
    calls = []
    top = 25 if nd == 2 else 13
    shape = [int(x) for x in rng.integers(4, top, size=nd)]
    for _ in range(int(rng.integers(1, 4))):
        if rng.random() < 0.5:               # otherwise: the shape of the previous call, other data / sampling rate
            shape = [int(x) for x in rng.integers(4, top, size=nd)]
        c = {"shape": {"t": shape}, "return_real_fourier": not full, "shape_is_real_fourier": False, "batch_dimension": None,
             "data_rfft": {"gen": {"seed": int(rng.integers(1 << 30)), "shape": shape, "rfft": True,
                                   "cdtype": str(rng.choice(["complex128", "complex64"]))}}}
        if rng.random() < 0.35:
            c["sampling_rate"] = float(rng.choice([0.8, 2.5, 4.0]))
        calls.append(c)
    return {"kind": "wide-compose", "parts": {k: specs[k] for k in names}, "combo": combo, "calls": calls,
            "scribble": bool(rng.random() < 0.5)}


def build_parts(parts):
    from tme.preprocessing.frequency_filters import BandPassFilter, LinearWhiteningFilter
    from tme.preprocessing.tilt_series import WedgeReconstructed, CTF
    cls = {"BandPassFilter": BandPassFilter, "LinearWhiteningFilter": LinearWhiteningFilter, "WedgeReconstructed": WedgeReconstructed, "CTF": CTF}
    return {k: cls[c](**dec_kw(a)) for k, (c, a) in parts.items()}


def flatten(combo):
    out = []
    for c in combo:
        out.extend(flatten(c) if isinstance(c, list) else [c])
    return out


def run_compose(ctx, case):
    from tme.preprocessing import Compose
    from .props import c12
    nested = list(case["combo"])
    combo = flatten(nested)
    if not combo:
        out = Compose(tuple())(shape=(4, 4))
        ctx.spec("the empty composition returns no data", case, isinstance(out, dict) and "data" not in out, key="Compose:empty")
        return
    fs = build_parts(case["parts"])       # ONE set of filter objects for all calls of this case
    def build(c):
        return Compose(tuple(build(x) for x in c)) if isinstance(c, list) else fs[c]
    comp = build(nested)
    before = {c: snap(fs[c]) for c in fs}
    for i, ekw in enumerate(case["calls"]):
        inp = {**case, "call_index": i}
        fresh = build_parts(case["parts"])
        parts = [call(fresh[c], dec_kw(ekw)) for c in combo]
        if any(isinstance(p, str) for p in parts):
            ctx.spec("filter call succeeds", inp, False, [p for p in parts if isinstance(p, str)][:2], key="Compose:part-raised")
            continue
        parts = [np.asarray(p["data"]) for p in parts]
        if len({p.shape for p in parts}) != 1:
            ctx.spec("composition of multiplicative filters = product of its parts", inp, False, {"part shapes": [p.shape for p in parts]}, key="Compose:part-shapes")
            continue
        if not all(np.all(np.isfinite(p)) for p in parts):
            ctx.count("wide:compose:nonfinite-part-skipped")      # whitening estimate undefined for this data (empty radial bin)
            continue
        ref = np.prod([p.astype(np.float64) for p in parts], axis=0)
        out = call(comp, dec_kw(ekw))
        if isinstance(out, str):
            ok, detail = False, out
        else:
            o = np.asarray(out["data"])
            ok = o.shape == ref.shape and bool(np.allclose(o, ref, rtol=1e-5, atol=1e-6))
            detail = {"shape": o.shape, "want": ref.shape, "maxdiff": float(np.abs(o - ref).max()) if o.shape == ref.shape else None}
        ctx.spec("composition of multiplicative filters = product of its parts (filter objects reused between calls)", inp, ok, detail,
                 key="Compose:product")
        ctx.spec("composition leaves its filters' attributes unchanged", inp, all(snap(fs[c]) == before[c] for c in fs), key="Compose:attributes-mutated")
        if case.get("scribble"):
            scribble(out)
        for c, p in zip(combo, parts):
            alone = call(fs[c], dec_kw(ekw))
            ctx.spec("a filter that was part of a composition still returns its own mask", {**inp, "part": c},
                     not isinstance(alone, str) and np.asarray(alone["data"]).shape == p.shape and bool(np.array_equal(np.asarray(alone["data"]), p, equal_nan=True)),
                     key="Compose:part-changed:" + case["parts"][c][0])
        ctx.count("wide:compose:len=" + str(len(combo)) + (":full" if not ekw["return_real_fourier"] else "") + (":dup" if len(set(combo)) < len(combo) else "")
                  + (":nested" if len(nested) < len(combo) else ""))
        ctx.distinct(("wide-compose", tuple(plain(dec(ekw["shape"]))), tuple(combo), ekw["return_real_fourier"]))


# ----------------------------------------------------------------------------- order of evaluation across processes
PROBE_SHAPES = [(6, 5), (6, 4), (5, 6), (8, 8), (8, 5), (7, 7, 6), (6, 6, 4), (4, 6, 6)]


def gen_probes(rng, n):
    """simple calls on a handful of shapes, so that keys of a too coarse cache collide"""
    out = []
    for _ in range(n):
        s = PROBE_SHAPES[int(rng.integers(0, len(PROBE_SHAPES)))]
        nd = len(s)
        k = int(rng.integers(0, 6))
        rrf = bool(rng.random() < 0.5)
        if k == 0:
            out.append(["BandPassFilter", dict(lowpass=float(rng.choice([3.0, 4.0, 6.0])), highpass=[None, 12.0, 20.0][int(rng.integers(0, 3))],
                                               sampling_rate=float(rng.choice([1.0, 2.0])), use_gaussian=bool(rng.random() < 0.5)),
                        dict(shape={"t": list(s)}, return_real_fourier=rrf, shape_is_real_fourier=bool(rng.random() < 0.25))])
        elif k == 1:
            cands = [x for x in PROBE_SHAPES if len(x) == nd]
            ds = cands[int(rng.integers(0, len(cands)))]
            out.append(["LinearWhiteningFilter", {},
                        dict(shape={"t": list(s)}, data_rfft={"gen": {"seed": int(rng.integers(1 << 30)), "rfft": True, "shape": list(ds)}},
                             n_bins=[None, 3, 4][int(rng.integers(0, 3))])])
        elif k == 2:
            oa, ta = (int(x) for x in rng.permutation(nd)[:2])
            a = float(rng.choice([30.0, 40.0, 60.0]))
            out.append(["WedgeReconstructed", dict(angles={"t": [a, float(rng.choice([a, 50.0]))]}, opening_axis=oa, tilt_axis=ta, create_continuous_wedge=True,
                                                   frequency_cutoff=[0.5, None, 0.3][int(rng.integers(0, 3))]),
                        dict(shape={"t": list(s)}, return_real_fourier=rrf)])
        elif k == 3:
            oa, ta = (int(x) for x in rng.permutation(nd)[:2])
            out.append(["WedgeReconstructed", dict(angles={"t": [float(x) for x in rng.choice([-50.0, -20.0, 0.0, 10.0, 40.0], size=3, replace=False)]},
                                                   opening_axis=oa, tilt_axis=ta, weight_wedge=bool(rng.random() < 0.5),
                                                   reconstruction_filter=[None, "ramp", "cosine"][int(rng.integers(0, 3))]),
                        dict(shape={"t": list(s)}, return_real_fourier=rrf)])
        elif k == 4:
            ctor = dict(shape=None, defocus_x={"l": [float(rng.choice([2000.0, 9000.0]))]}, angles={"l": [0]},
                        sampling_rate=float(rng.choice([1.5, 3.0])), flip_phase=bool(rng.random() < 0.5),
                        acceleration_voltage=float(rng.choice([200e3, 300e3])), spherical_aberration=float(rng.choice([2.7e7, 1.0e7])),
                        amplitude_contrast=float(rng.choice([0.07, 0.2])), phase_shift={"l": [float(rng.choice([0.0, 0.7]))]})
            if rng.random() < 0.4:
                ctor.update(defocus_y={"l": [float(rng.choice([1500.0, 7000.0]))]}, defocus_angle=float(rng.choice([0.0, 35.0, 120.0])))
            out.append(["CTF", ctor, dict(shape={"t": list(s)}, return_real_fourier=rrf)])
        else:
            s3 = s if nd == 3 else (7, 7, 6)
            oa, ta = (int(x) for x in rng.permutation(3)[:2])
            out.append(["Wedge", dict(shape=None, tilt_axis=ta, opening_axis=oa,
                                      angles={"t": [float(x) for x in np.sort(rng.choice([-40.0, -30.0, 0.0, 20.0, 35.0], size=3, replace=False))]},
                                      weights={"t": [float(x) for x in rng.choice([1.0, 2.0, 1.5, 0.5], size=3)]},
                                      frequency_cutoff=[0.5, None, 0.3][int(rng.integers(0, 3))]),
                        dict(shape={"t": list(s3)}, weight_type=[None, "angle", "relion", "grigorieff"][int(rng.integers(0, 4))])])
    return out


def _vary(v):
    """another valid value of the same kind (None when there is no obvious one)"""
    if isinstance(v, bool):
        return not v
    if isinstance(v, float):
        return float(np.round(v * 0.73 + 0.21, 4))
    if isinstance(v, dict) and ("t" in v or "l" in v):
        k = "t" if "t" in v else "l"
        if all(isinstance(x, float) for x in v[k]):
            return {k: [_vary(x) for x in v[k]]}
    if isinstance(v, dict) and "gen" in v:
        return {"gen": {**v["gen"], "seed": int(v["gen"]["seed"]) + 1}}
    return None


def variants(p):
    """the probe with one constructor / call argument changed at a time (the shape is kept): a history for its replay"""
    name, ctor, kw = p
    every = [name, {k: (_vary(v) if k != "shape" and _vary(v) is not None else v) for k, v in ctor.items()},
             {k: (_vary(v) if k != "shape" and _vary(v) is not None else v) for k, v in kw.items()}]
    out = [every]                      # first (a first-wins cache) ...
    for which, d in ((1, ctor), (2, kw)):
        for k, v in d.items():
            if k == "shape":
                continue
            w = _vary(v)
            if w is not None:
                q = [name, dict(ctor), dict(kw)]
                q[which][k] = w
                out.append(q)
    return out + [every]               # ... and last (a last-wins cache)


def eval_probe(p):
    from tme.preprocessing.frequency_filters import BandPassFilter, LinearWhiteningFilter
    from tme.preprocessing.tilt_series import WedgeReconstructed, CTF, Wedge
    cls = {"BandPassFilter": BandPassFilter, "LinearWhiteningFilter": LinearWhiteningFilter, "WedgeReconstructed": WedgeReconstructed,
           "CTF": CTF, "Wedge": Wedge}
    name, ctor, kw = p
    r = call(cls[name](**dec_kw(ctor)), dec_kw(kw))
    if isinstance(r, str):
        return {"raised": r.split(":")[1]}
    a = np.asarray(r["data"])
    return {"shape": list(a.shape), "dtype": str(a.dtype), "data": [float(x) for x in a.astype(np.float64).ravel()]}


def child():
    """entry point of the fresh interpreter: every probe it reads from stdin is evaluated in a process forked from the
    pristine state (modules imported, no filter evaluated yet)"""
    import sys
    import io
    import os
    import tme.preprocessing.frequency_filters  # noqa
    import tme.preprocessing.tilt_series  # noqa
    import tme.preprocessing  # noqa
    probes = json.load(sys.stdin)
    res = []
    for i, p in probes:
        r, w = os.pipe()
        pid = os.fork()
        if pid == 0:
            try:
                os.close(r)
                with contextlib.redirect_stdout(io.StringIO()):
                    out = eval_probe(p)
                data = json.dumps(out).encode()
            except BaseException as e:  # noqa
                data = json.dumps({"raised": "child:" + type(e).__name__}).encode()
            try:
                with os.fdopen(w, "wb") as f:
                    f.write(data)
            finally:
                os._exit(0)
        os.close(w)
        with os.fdopen(r, "rb") as f:
            data = f.read()
        os.waitpid(pid, 0)
        res.append([i, json.loads(data) if data else {"raised": "child:no-output"}])
    sys.stdout.write("\n@@C12-PROBES@@" + json.dumps(res))


def run_process_order(ctx, case):
    from . import env
    probes = case["probes"]
    if case.get("warm"):
        # replay of one recorded probe: first give this process a history (other arguments, same classes and shapes)
        for q in [v for p in probes for v in variants(p)]:
            eval_probe(q)
    here = [eval_probe(p) for p in probes]          # this process: after everything that ran before, in list order
    try:
        pr = subprocess.run([env.PY, "-c", "from pv import c12_wide; c12_wide.child()"], input=json.dumps([[i, p] for i, p in enumerate(probes)]),
                            capture_output=True, text=True, env=env.child_env(), timeout=300)
        there = dict((i, r) for i, r in json.loads(pr.stdout.split("@@C12-PROBES@@")[1]))
    except Exception as e:  # noqa  (infrastructure, not a verdict about the property)
        ctx.note("process-order child failed: " + type(e).__name__ + " " + str(e)[:200])
        ctx.count("wide:process-order:child-failed")
        return
    for i, p in enumerate(probes):
        a, b = here[i], there.get(i)
        if b is None or str(b.get("raised", "")).startswith("child:"):
            ctx.count("wide:process-order:child-failed")
            continue
        if "raised" in a or "raised" in b:
            ok = a.get("raised") == b.get("raised")
        else:
            x, y = np.array(a["data"], dtype=np.float64), np.array(b["data"], dtype=np.float64)
            fx, fy = np.isfinite(x), np.isfinite(y)
            ok = a["shape"] == b["shape"] and a["dtype"] == b["dtype"] and bool(np.array_equal(fx, fy)) and \
                bool(np.all(np.abs(x[fx] - y[fx]) <= 1e-9))
        ctx.spec("result of a call does not depend on what was evaluated before it in the process "
                 "(this process, after all the calls above, vs a process forked from a pristine interpreter)",
                 {"kind": "wide-process-order", "probes": [p], "warm": True}, ok,
                 key="process-order:" + p[0], size=len(json.dumps(p)))
        ctx.count("wide:process-order:" + p[0])


# ----------------------------------------------------------------------------- documented configurations that raise today
def gen_raises(rng):
    """configurations the documentation offers and today's code cannot evaluate (listed known findings, each under its
    own key; anything else that raises is reported under the ordinary `...:raised` keys)"""
    shape = [int(x) for x in rng.permutation([6, 7, 8])] if rng.random() < 0.5 else [int(rng.integers(5, 12)), int(rng.integers(12, 16)), int(rng.integers(3, 5))]
    n = int(rng.integers(2, 5))
    ang = {"l": [float(x) for x in np.sort(rng.uniform(-60, 60, size=n)).round(1)]}
    dfx = {"l": [float(x) for x in rng.uniform(1000, 9000, size=n).round(0)]}
    k = int(rng.integers(0, 4))
    if k == 0:
        oa, ta = (int(x) for x in rng.permutation(3)[:2])
        return {"kind": "wide-raises", "cls": "WedgeReconstructed", "key": "WedgeReconstructed.step_wedge:ramp-cont:raised",
                "ctor": dict(angles=ang, opening_axis=oa, tilt_axis=ta, reconstruction_filter="ramp-cont", weight_wedge=bool(rng.random() < 0.5)),
                "call": dict(shape={"t": shape})}
    oa, ta = (int(x) for x in rng.permutation(3)[:2])
    base = dict(shape=None, defocus_x=dfx, angles=ang, opening_axis=oa, tilt_axis=ta, sampling_rate=2.0)
    if k == 1:
        return {"kind": "wide-raises", "cls": "CTF", "key": "CTF:tilt-stack:scalar-defaults:raised", "ctor": base, "call": dict(shape={"t": shape})}
    full = dict(base, phase_shift={"l": [0.0] * n}, defocus_angle={"l": [0.0] * n})
    if k == 2:
        return {"kind": "wide-raises", "cls": "CTF", "key": "CTF:tilt-stack:defocus_y:raised",
                "ctor": dict(full, defocus_y={"l": [float(x) for x in rng.uniform(1000, 9000, size=n).round(0)]}), "call": dict(shape={"t": shape})}
    oa, ta = [(1, 2), (2, 1)][int(rng.integers(0, 2))]
    return {"kind": "wide-raises", "cls": "CTF", "key": "CTF:tilt-stack:defocus-gradient:raised",
            "ctor": dict(full, opening_axis=oa, tilt_axis=ta, defocus_y={"a": [None] * n, "shape": [n], "dtype": "object"}, correct_defocus_gradient=True),
            "call": dict(shape={"t": [8, 7, 6]})}


def run_raises(ctx, case):
    from tme.preprocessing.tilt_series import WedgeReconstructed, CTF
    from .props import c12
    obj = {"WedgeReconstructed": WedgeReconstructed, "CTF": CTF}[case["cls"]](**dec_kw(case["ctor"]))
    r = call(obj, dec_kw(case["call"]))
    c12.spec_capped(ctx, "filter call succeeds", case, not isinstance(r, str), r if isinstance(r, str) else None, key=case["key"], cap=3)
    ctx.count("wide:raises:" + case["key"])


# ----------------------------------------------------------------------------- dispatch / suites
RUNNERS = {"wide-bandpass": run_bandpass, "wide-whitening": run_whitening, "wide-wedge": run_wedge, "wide-tiltwedge": run_tiltwedge,
           "wide-ctf": run_ctf, "wide-compose": run_compose, "wide-process-order": run_process_order, "wide-raises": run_raises}
GENS = {"wide-bandpass": gen_bandpass, "wide-whitening": gen_whitening, "wide-wedge": gen_wedge, "wide-tiltwedge": gen_tiltwedge,
        "wide-ctf": gen_ctf, "wide-compose": gen_compose}


def run_case(ctx, case):
    """a filter that raises outside a filter call on a generated (valid) input is a failing input too"""
    kind = case["kind"]
    try:
        RUNNERS[kind](ctx, case)
    except Exception as e:  # noqa
        import traceback
        tb = traceback.format_exc()
        if "pv/driver.py" in tb or isinstance(e, (BrokenPipeError, KeyboardInterrupt)):
            raise
        ctx.spec("filter code runs on a valid input", {**case, "exception": type(e).__name__ + ": " + str(e)[:200]}, False, tb[-1200:],
                 key=f"{kind}:raised:{type(e).__name__}")


@contextlib.contextmanager
def backend_precision(double):
    from tme.backends import backend as be
    if not double:
        yield
        return
    name, args = be._backend_name, dict(be._backend_args)
    be.change_backend("numpyfftw", float_dtype=np.float64, complex_dtype=np.complex128, int_dtype=np.int64)
    try:
        yield
    finally:
        be.change_backend(name, **args)


def suite(ctx, rng, scale=1.0):
    n = {"wide-bandpass": ctx.budget(450, 4000), "wide-whitening": ctx.budget(220, 2000), "wide-wedge": ctx.budget(200, 1800),
         "wide-tiltwedge": ctx.budget(50, 500), "wide-ctf": ctx.budget(120, 1200), "wide-compose": ctx.budget(220, 2000)}
    for kind, k in n.items():
        for _ in range(int(k * scale)):
            run_case(ctx, GENS[kind](rng))
    run_case(ctx, {"kind": "wide-compose", "parts": {}, "combo": [], "calls": []})
    for _ in range(ctx.budget(16, 60)):
        run_case(ctx, gen_raises(rng))
    # the same generators under a float64 backend
    with backend_precision(True):
        for kind, k in n.items():
            for _ in range(max(3, int(k * scale * 0.15))):
                case = GENS[kind](rng)
                case["backend"] = "float64"
                run_case(ctx, case)
    run_case(ctx, {"kind": "wide-process-order", "probes": gen_probes(rng, ctx.budget(120, 500))})


def replay(ctx, inp):
    case = {k: v for k, v in inp.items() if k not in ("call_index", "index", "probe", "exception", "part", "copy")}
    with backend_precision(case.get("backend") == "float64"):
        run_case(ctx, case)
