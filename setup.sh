#!/bin/bash
# Offline setup after a fresh restore: build the Lean library + driver and the C++ extension
# of /repo's working tree.  Everything needed is on disk (Lean/Mathlib pre-installed).
set -e
cd "$(dirname "$0")"
export PYTHONPATH="$PWD/harness/site:$PWD/harness:${PYTME_REPO:-/repo}"
/venv/bin/python -c "from pv import env; from pv.main import regen_registries; regen_registries(); print(env.build_extension())"
cd lean && lake build 2>&1 | tail -5
